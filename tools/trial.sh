#!/bin/bash
# usage: tools/trial.sh <seed> <prop> [extra check args]   -> runs ./check <prop> with the seed applied
S=/verif/seeded/$1; shift
P=$1; shift
/verif/tools/with_patch.sh $S/patch.diff ./check $P --no-replay "$@" > /var/tmp/trial_$(basename $S)_$P.log 2>&1
rc=$?
echo "$(basename $S) $P rc=$rc $(grep -c '^VIOLATION' /var/tmp/trial_$(basename $S)_$P.log) violations; $(grep -h 'failed:' /var/tmp/trial_$(basename $S)_$P.log | head -2 | cut -c1-150 | tr '\n' '|')"
