#!/bin/bash
# usage: tools/trial.sh <seed> <prop> [extra check args]
# Runs ./check <prop> against a private worktree of /repo with the seeded change applied
# (VERIF_REPO), so that /repo itself is not touched and trials can run side by side.
S=/verif/seeded/$1; shift
P=$1; shift
N=$(basename $S)
W=/tmp/trial-wt-$N-$P
git -C /repo worktree remove --force $W >/dev/null 2>&1
git -C /repo worktree add -q --detach $W HEAD || exit 3
git -C $W apply $S/patch.diff || exit 3
VERIF_REPO=$W VERIF_NO_EVIDENCE=1 /verif/check $P ${REPLAY:+} $( [ -z "$REPLAY" ] && echo --no-replay ) "$@" > /var/tmp/trial_${N}_$P.log 2>&1
rc=$?
git -C /repo worktree remove --force $W
echo "$N $P rc=$rc $(grep -c '^VIOLATION' /var/tmp/trial_${N}_$P.log) violations; $(grep -h 'failed:' /var/tmp/trial_${N}_$P.log | head -2 | cut -c1-150 | tr '\n' '|')"
