#!/bin/sh
# usage: tools/with_patch.sh <patch.diff | -R:<commit>> <command...>
# Applies the patch to /repo's working tree, runs the command, always restores /repo.
set -u
P="$1"; shift
cd /repo || exit 3
if [ -n "$(git status --porcelain -- src)" ]; then echo "/repo/src is dirty, refusing" >&2; exit 3; fi
case "$P" in
  -R:*) git show "${P#-R:}" -- src | git apply -R || exit 3 ;;
  *) git apply "$P" || exit 3 ;;
esac
cd /verif
"$@"
rc=$?
git -C /repo checkout -- . 
exit $rc
