#!/usr/bin/env python3
"""Write /verif/seeded/<id>/meta.json from the confirmation logs and the trial logs."""
import json, os, re, glob
INFO = {
 "C01-A": ("C01", "try_alloc_layout_fast, align > MIN_ALIGN arm: capacity measured from the unrounded finger", "alignment >= 32 on a chunk whose base is not that aligned, nearly full chunk: block starts below the chunk"),
 "C01-B": ("C01", "dealloc rounds the freed finger up to layout.align() instead of MIN_ALIGN", "shrink that raised the alignment in place, then deallocate of that last block with a live neighbour above: neighbour handed out again"),
 "C03-A": ("C03", "alloc_try_with error path frees the freshly acquired chunk (and reads the error out of it afterwards)", "Result slot forced a new chunk, initialiser failed, nothing else allocated"),
 "C03-B": ("C03", "new_chunk requests layout.pad_to_align() but records the unpadded layout", "a chunk created for a request with alignment >= 32, later freed by reset/drop with a different size"),
 "C04-A": ("C04", "fast path, align == MIN_ALIGN arm bumps by the raw size (no rounding)", "Bump<M>, M >= 2, hand-made Layout with align == M and size % M != 0"),
 "C04-B": ("C04", "grow treats a luckily aligned old pointer as alignment-compatible and extends in place", "new align > old align and > MIN_ALIGN, last block, old pointer aligned to the new alignment, delta not a multiple of it"),
 "C07-A": ("C07", "chunk_fits_under_limit compares against size - OVERHEAD (16 bytes too lenient)", "headroom within 16 bytes below a candidate chunk's usable size"),
 "C07-B": ("C07", "small-limit bypass enabled for arenas WITHOUT a limit (map_or(true, ..))", "chunk-less arena, no limit, global allocator refuses the default chunk but grants smaller ones"),
 "C09-A": ("C09", "fast path, align < MIN_ALIGN arm: `>` became `>=` (exact fit refused)", "MIN_ALIGN >= 2, request alignment below it, rounded size exactly the remaining capacity (e.g. a freshly acquired exact-fit chunk: try_ panics in dev, leaks a chunk in release)"),
 "C09-B": ("C09", "try_alloc_slice_fill_with computes len * size_of::<T>() unchecked", "len > usize::MAX / size_of::<T>() (dev: overflow panic in a try_ method; release: wrapped size)"),
 "C11-A": ("C11", "alloc_try_with/try_alloc_try_with rewind whenever still in the entry chunk (is_last_allocation check dropped)", "initialiser allocates in the same arena, keeps the block, then fails"),
 "C11-B": ("C11", "dealloc stores the new finger only if it is strictly below the footer", "failed try_fill slice that was the first allocation of its chunk, chunk too small for two copies"),
 "C12-A": ("C12", "shrink rounds the reclaimed delta UP", "old-new not a multiple of max(align, MIN_ALIGN), last block with a live neighbour above"),
 "C12-B": ("C12", "grow: lucky alignment accepted as compatible (same edit as C04-B)", "see C04-B"),
 "C02-A": ("C02", "shrink (stricter alignment, reallocating branch) copies old_layout.size() bytes", "Allocator::shrink with raised alignment, misaligned pointer, old > new size, a live block after it: neighbour overwritten"),
 "C02-B": ("C02", "alloc_slice_try_fill_with rewinds to the entry finger instead of dealloc (no is_last check)", "slice initialiser allocates in the same arena before failing"),
 "C06-A": ("C06", "reset returns early when the current chunk's finger is at its footer", ">= 2 chunks with an unused newest chunk (e.g. after a failed initialiser that forced a chunk)"),
 "C06-B": ("C06", "same edit as C09-A (exact fit refused for align < MIN_ALIGN)", "after reset, request of exactly chunk_capacity() bytes with align 1 on Bump<M>, M >= 2"),
 "C08-A": ("C08", "new_chunk pads the requested layout (same mechanism as C03-B)", "chunk acquired for a request with alignment >= 32"),
 "C08-B": ("C08", "reset subtracts only the immediately previous chunk's size from allocated_bytes", "reset of an arena with >= 3 chunks"),
 "C10-A": ("C10", "alloc_try_with rewinds whenever still in the entry chunk (only this twin)", "failing initialiser with a nested allocation in the same chunk"),
 "C10-B": ("C10", "ChunkRawIter stops at the first chunk with nothing allocated", "an empty chunk in front of older chunks (failed initialiser that forced a chunk, fresh with_capacity, reset)"),
 "C13-A": ("C13", "Vec::into_bump_slice shrinks (moves) the buffer after reading the pointer", "vector at most half full that is the newest allocation, followed by another allocation"),
 "C13-B": ("C13", "dedup_by passes its closure arguments in the wrong order", "asymmetric or mutating same_bucket closure"),
 "C14-A": ("C14", "lossy decoder: three-byte arms merged, ED A0..BF accepted (surrogates)", "input containing 0xED followed by 0xA0..0xBF"),
 "C14-B": ("C14", "replace_range: inclusive end bound checked without +1", "inclusive end inside a multi-byte character"),
 "C15-A": ("C15", "TryFrom<Box<[T]>> for Box<[T; N]> accepts len >= N", "boxed slice longer than N with Drop elements: the tail is never dropped"),
 "C15-B": ("C15", "IntoIter::drop skips the remainder when size_of::<T>() == 0", "zero-sized element type with a destructor, iterator dropped before exhaustion"),
 "C17-A": ("C17", "PartialOrd for Box: le/ge derived from !gt / !lt", "incomparable payloads (NaN)"),
 "C17-B": ("C17", "Vec::into_boxed_slice calls shrink_to_fit after capturing the pointer", "vector at most half full that is the newest allocation, later allocation overwrites the box"),
 "C18-A": ("C18", "same edit as C09-A (exact fit refused)", "with_capacity(c) on Bump<M>, M >= 2, then a c-byte request with align < M"),
 "C18-B": ("C18", "Extend for Vec uses reserve_exact", "repeated small extends: reallocation every time"),
 "C19-A": ("C19", "reserve fast path compares cap >= used.wrapping_add(extra)", "non-empty vector, additional > usize::MAX - len"),
 "C19-B": ("C19", "RawVec::allocate_in multiplies cap * elem_size unchecked", "release profile only: capacity above usize::MAX / size whose wrapped product is small"),
 "C20-A": ("C20", "fast path, align > MIN_ALIGN arm: saturating_sub instead of the explicit below-start test", "over-aligned zero-sized request on a chunk-less arena: finger stored below the shared sentinel"),
 "C20-B": ("C20", "process-wide static hint of the smallest refused chunk size", "one arena sees a refusal, another arena later grows"),
}
for sid, (prop, what, needs) in INFO.items():
    d = "/verif/seeded/" + sid
    if not os.path.isdir(d):
        continue
    conf = open(d + "/confirm.txt").read().strip() if os.path.exists(d + "/confirm.txt") else ""
    m = dict(re.findall(r"(\w+)=(-?\d+)", conf))
    trial = None
    logs = sorted(glob.glob("/var/tmp/trial_%s_*.log" % sid), key=os.path.getmtime)
    det = {}
    for lg in logs:
        p = re.search(r"_(C\d\d)\.log$", lg).group(1)
        txt = open(lg, errors="replace").read()
        fails = re.findall(r"^  (\S+)\s+FAIL", txt, re.M)
        descs = [x.strip() for x in re.findall(r"^  failed: (.*?)  @", txt, re.M)]
        det[p] = {"violation_lines": len(re.findall(r"^VIOLATION", txt, re.M)), "failing_harnesses": sorted(set(fails)), "failed_checks": sorted(set(descs))[:6]}
    meta = {
        "seed": sid, "breaks_property": prop, "change": what, "needs_to_manifest": needs,
        "origin": "written by an independent sub-agent that saw only the property text and a scratch worktree",
        "confirmed": {"existing_suite_with_change_rc": int(m.get("suite_with_change_rc", -1)), "demo_with_change_rc": int(m.get("demo_with_rc", -1)),
                      "demo_without_change_rc": int(m.get("demo_without_rc", -1)), "demo_with_change_release_rc": int(m.get("demo_with_release_rc", -1)),
                      "how": "tools/confirm_seed.sh: scratch worktree of /repo; cargo test --workspace --offline with the change; demo.rs as tests/zz_demo.rs with and without the change (dev), with the change (release)"},
        "checked_with": {p: dict(v, command="tools/trial.sh %s %s  (= ./check %s --tier quick on a worktree of /repo with patch.diff applied)" % (sid, p, p)) for p, v in det.items()},
        "detected": any(v["violation_lines"] > 0 for v in det.values()),
    }
    json.dump(meta, open(d + "/meta.json", "w"), indent=1)
    print(sid, meta["detected"], {p: v["violation_lines"] for p, v in det.items()})
