#!/usr/bin/env python3
"""Write /verif/seeded/<id>/meta.json from the confirmation logs and the trial logs."""
import json, os, re, glob, sys
INFO = {
 "C01-A": ("C01", "try_alloc_layout_fast, align > MIN_ALIGN arm: capacity measured from the unrounded finger", "alignment >= 32 on a chunk whose base is not that aligned, nearly full chunk: block starts below the chunk"),
 "C01-B": ("C01", "dealloc rounds the freed finger up to layout.align() instead of MIN_ALIGN", "shrink that raised the alignment in place, then deallocate of that last block with a live neighbour above: neighbour handed out again"),
 "C03-A": ("C03", "alloc_try_with error path frees the freshly acquired chunk (and reads the error out of it afterwards)", "Result slot forced a new chunk, initialiser failed, nothing else allocated"),
 "C03-B": ("C03", "new_chunk requests layout.pad_to_align() but records the unpadded layout", "a chunk created for a request with alignment >= 32, later freed by reset/drop with a different size"),
 "C04-A": ("C04", "fast path, align == MIN_ALIGN arm bumps by the raw size (no rounding)", "Bump<M>, M >= 2, hand-made Layout with align == M and size % M != 0"),
 "C04-B": ("C04", "grow treats a luckily aligned old pointer as alignment-compatible and extends in place", "new align > old align and > MIN_ALIGN, last block, old pointer aligned to the new alignment, delta not a multiple of it"),
 "C07-A": ("C07", "chunk_fits_under_limit compares against size - OVERHEAD (16 bytes too lenient)", "headroom within 16 bytes below a candidate chunk's usable size"),
 "C07-B": ("C07", "small-limit bypass enabled for arenas WITHOUT a limit (map_or(true, ..))", "chunk-less arena, no limit, global allocator refuses the default chunk but grants smaller ones"),
 "C09-A": ("C09", "fast path, align < MIN_ALIGN arm: `>` became `>=` (exact fit refused)", "MIN_ALIGN >= 2, request alignment below it, rounded size exactly the remaining capacity (e.g. a freshly acquired exact-fit chunk: try_ panics in dev, leaks a chunk in release)"),
 "C09-B": ("C09", "try_alloc_slice_fill_with computes len * size_of::<T>() unchecked", "len > usize::MAX / size_of::<T>() (dev: overflow panic in a try_ method; release: wrapped size)"),
 "C11-A": ("C11", "alloc_try_with/try_alloc_try_with rewind whenever still in the entry chunk (is_last_allocation check dropped)", "initialiser allocates in the same arena, keeps the block, then fails"),
 "C11-B": ("C11", "dealloc stores the new finger only if it is strictly below the footer", "failed try_fill slice that was the first allocation of its chunk, chunk too small for two copies"),
 "C12-A": ("C12", "shrink rounds the reclaimed delta UP", "old-new not a multiple of max(align, MIN_ALIGN), last block with a live neighbour above"),
 "C12-B": ("C12", "grow: lucky alignment accepted as compatible (same edit as C04-B)", "see C04-B"),
 "C02-A": ("C02", "shrink (stricter alignment, reallocating branch) copies old_layout.size() bytes", "Allocator::shrink with raised alignment, misaligned pointer, old > new size, a live block after it: neighbour overwritten"),
 "C02-B": ("C02", "alloc_slice_try_fill_with rewinds to the entry finger instead of dealloc (no is_last check)", "slice initialiser allocates in the same arena before failing"),
 "C06-A": ("C06", "reset returns early when the current chunk's finger is at its footer", ">= 2 chunks with an unused newest chunk (e.g. after a failed initialiser that forced a chunk)"),
 "C06-B": ("C06", "same edit as C09-A (exact fit refused for align < MIN_ALIGN)", "after reset, request of exactly chunk_capacity() bytes with align 1 on Bump<M>, M >= 2"),
 "C08-A": ("C08", "new_chunk pads the requested layout (same mechanism as C03-B)", "chunk acquired for a request with alignment >= 32"),
 "C08-B": ("C08", "reset subtracts only the immediately previous chunk's size from allocated_bytes", "reset of an arena with >= 3 chunks"),
 "C10-A": ("C10", "alloc_try_with rewinds whenever still in the entry chunk (only this twin)", "failing initialiser with a nested allocation in the same chunk"),
 "C10-B": ("C10", "ChunkRawIter stops at the first chunk with nothing allocated", "an empty chunk in front of older chunks (failed initialiser that forced a chunk, fresh with_capacity, reset)"),
 "C13-A": ("C13", "Vec::into_bump_slice shrinks (moves) the buffer after reading the pointer", "vector at most half full that is the newest allocation, followed by another allocation"),
 "C13-B": ("C13", "dedup_by passes its closure arguments in the wrong order", "asymmetric or mutating same_bucket closure"),
 "C14-A": ("C14", "lossy decoder: three-byte arms merged, ED A0..BF accepted (surrogates)", "input containing 0xED followed by 0xA0..0xBF"),
 "C14-B": ("C14", "replace_range: inclusive end bound checked without +1", "inclusive end inside a multi-byte character"),
 "C15-A": ("C15", "TryFrom<Box<[T]>> for Box<[T; N]> accepts len >= N", "boxed slice longer than N with Drop elements: the tail is never dropped"),
 "C15-B": ("C15", "IntoIter::drop skips the remainder when size_of::<T>() == 0", "zero-sized element type with a destructor, iterator dropped before exhaustion"),
 "C17-A": ("C17", "PartialOrd for Box: le/ge derived from !gt / !lt", "incomparable payloads (NaN)"),
 "C17-B": ("C17", "Vec::into_boxed_slice calls shrink_to_fit after capturing the pointer", "vector at most half full that is the newest allocation, later allocation overwrites the box"),
 "C18-A": ("C18", "same edit as C09-A (exact fit refused)", "with_capacity(c) on Bump<M>, M >= 2, then a c-byte request with align < M"),
 "C18-B": ("C18", "Extend for Vec uses reserve_exact", "repeated small extends: reallocation every time"),
 "C19-A": ("C19", "reserve fast path compares cap >= used.wrapping_add(extra)", "non-empty vector, additional > usize::MAX - len"),
 "C19-B": ("C19", "RawVec::allocate_in multiplies cap * elem_size unchecked", "release profile only: capacity above usize::MAX / size whose wrapped product is small"),
 "C20-A": ("C20", "fast path, align > MIN_ALIGN arm: saturating_sub instead of the explicit below-start test", "over-aligned zero-sized request on a chunk-less arena: finger stored below the shared sentinel"),
 "C20-B": ("C20", "process-wide static hint of the smallest refused chunk size", "one arena sees a refusal, another arena later grows"),
 "C01-C": ("C01", "alloc_try_with, new-chunk error path: finger reset to the footer without the is_last_allocation guard", "Result slot forced a new chunk, initialiser allocated in the arena (lands in the new chunk), kept the block and failed"),
 "C01-D": ("C01", "shrink rounds the reclaimed delta UP (same mechanism as C12-A)", "see C12-A"),
 "C02-C": ("C02", "fast path, align > MIN_ALIGN arm: capacity from the unrounded finger (same mechanism as C01-A)", "see C01-A"),
 "C02-D": ("C02", "shrink: delta = round_down(old) - round_down(new)", "new size not a multiple of max(align, MIN_ALIGN), last block with a live neighbour above"),
 "C03-C": ("C03", "new_chunk frees an 'unused' predecessor chunk (finger at its footer) and links past it", "arena grows while its current chunk has had no non-zero-sized allocation (with_capacity + too-large first request, reset + larger request)"),
 "C03-D": ("C03", "slow path acquires the candidate chunk BEFORE testing it against the limit and drops it if over", "a limit is set and some candidate size does not fit under it: leaked block"),
 "C04-C": ("C04", "shrink rounds the reclaimed delta to the new alignment only (not MIN_ALIGN)", "MIN_ALIGN > 1, layout align below it, last block, >= half given back, amount not a multiple of MIN_ALIGN"),
 "C04-D": ("C04", "try_with_min_align_and_capacity: capacity == 0 early return moved in front of the MIN_ALIGN assertions", "unsupported MIN_ALIGN with capacity exactly 0"),
 "C06-C": ("C06", "reset recomputes allocated_bytes from chunk_capacity() BEFORE the finger is rewound", "partly used retained chunk; visible in accounting / limit enforcement (really a C08/C07 violation)"),
 "C06-D": ("C06", "reset rounds the finger down to the chunk's layout.align()", "current chunk acquired for a request aligned to >= 128: finger below the footer after reset"),
 "C07-C": ("C07", "allocation_limit_remaining returns abs_diff(limit, held) unconditionally", "limit below the bytes held: the overage is taken for headroom"),
 "C07-D": ("C07", "reset accounting via chunk_capacity() before the finger reset (= C06-C)", "limit + partly used chunk + reset + growth"),
 "C08-C": ("C08", "alloc_try_with new-chunk error path unlinks the new chunk without freeing it", "Result slot forced a new chunk, initialiser failed: accounting falls back, block still held (leak)"),
 "C08-D": ("C08", "ChunkRawIter skips chunks with nothing allocated (allocated_bytes_including_metadata counts chunks through it)", "a held but untouched chunk (fresh with_capacity, right after reset)"),
 "C09-C": ("C09", "new_chunk_memory_details: size.max(align) instead of round_up(size, align)", "align >= 128, size not a multiple of it, request dictating the chunk size: new chunk cannot serve the request (debug panic in try_, Err + leaked chunk in release)"),
 "C09-D": ("C09", "new_chunk builds its Layout with from_size_align_unchecked", "requests within ~63 bytes of isize::MAX: invalid Layout handed to the global allocator (abort in dev)"),
 "C10-C": ("C10", "reset early return when the newest chunk is untouched (= C06-A)", "see C06-A"),
 "C10-D": ("C10", "alloc_slice_try_fill_with rewinds to a saved finger without tracking which chunk it belonged to", "failing fill that forced a new chunk: old chunk's finger written into the new chunk's footer"),
 "C11-C": ("C11", "new-chunk rewind replaced by dealloc(result, Layout::new::<T>()) (inner T instead of Result<T,E>)", "new chunk sized exactly for the Result (or E much larger than T): follow-up request goes to the global allocator"),
 "C11-D": ("C11", "alloc_slice_try_fill_with: size_of::<T>() * len unchecked", "release profile only (dev: overflow panic, which is still a refusal)"),
 "C12-C": ("C12", "dealloc rounds to layout.align() (= C01-B)", "see C01-B; also MIN_ALIGN > 1 with under-aligned last block"),
 "C12-D": ("C12", "grow fallback frees the old block before the fresh allocation", "last block, in-place extension impossible, fresh allocation fails: caller's block reclaimed"),
 "C13-C": ("C13", "Splice::drop: move_tail(lower_bound) instead of move_tail(collected.len())", "splice with a tail, more replacement items than drained, inexact size_hint"),
 "C13-D": ("C13", "Vec::drain: Excluded(n) start bound decoded as n", "(Bound, Bound) ranges with an excluded start"),
 "C14-C": ("C14", "String::truncate asserts the boundary unconditionally", "new_len > len (std: no-op) panics"),
 "C14-D": ("C14", "String::pop ASCII fast path with `<= 0x80`", "last byte exactly 0x80 (code points divisible by 64 above U+007F)"),
 "C15-C": ("C15", "Splice::drop exhausts the drained range after the tail_len == 0 fast path", "splice reaching the end of the vector, dropped with unyielded removed elements"),
 "C15-D": ("C15", "Drain gains an nth() forwarding to slice::Iter::nth", "drain advanced by nth/skip/step_by: stepped-over elements never dropped"),
 "C17-C": ("C17", "TryFrom<Box<[T]>> for Box<[T;N]> compares byte sizes", "zero-sized element type, len != N"),
 "C17-D": ("C17", "Display/Debug for Box go through write!(\"{}\")", "non-default format specs (width, precision, #)"),
 "C18-C": ("C18", "fast path, align < MIN_ALIGN arm: round_down(size) + MIN_ALIGN (over-charges exact multiples)", "MIN_ALIGN >= 2, under-aligned request whose size is a multiple of MIN_ALIGN"),
 "C18-D": ("C18", "String::push reserves 4 bytes for every multi-byte char", "2-3 byte char pushed into spare capacity < 4"),
 "C19-C": ("C19", "fast path, align > MIN_ALIGN arm: subtract first, only check < start (wraps)", "alignment above MIN_ALIGN and a size above the finger's numeric address"),
 "C19-D": ("C19", "try_with_min_align_and_capacity rounds the capacity up with an unchecked add", "MIN_ALIGN >= 2, capacity within MIN_ALIGN-1 of usize::MAX"),
 "C20-C": ("C20", "alloc_try_with frees the fresh chunk and then reads the error out of it (= C03-A)", "see C03-A; cross-arena effect needs another thread reusing the freed block"),
 "C20-D": ("C20", "Vec::append: capacity-0 fast path swaps the vectors (and with them their arenas)", "append across two arenas with an unallocated destination"),
 "C01-E": ("C01", "try_alloc_try_with Err arm always restores the saved entry finger (same-chunk test and new-chunk branch removed)", "Result slot spilled into a new chunk, initialiser failed without allocating: the new chunk's finger points into the OLD chunk; later blocks lie outside the arena"),
 "C03-E": ("C03", "try_with_min_align_and_capacity validates MIN_ALIGN (via with_min_align()) only AFTER new_chunk", "unsupported MIN_ALIGN (32, 64) with non-zero capacity: the chunk is obtained, the constructor panics, nothing owns or frees the block"),
 "C06-E": ("C06", "reset early-out tests chunk_capacity() == 0 instead of the chunk-less sentinel", "newest chunk exactly full at reset time: reset does nothing"),
 "C07-E": ("C07", "new_chunk: cumulative allocated_bytes starts from prev.layout.size() - FOOTER_SIZE instead of prev.allocated_bytes (also breaks C08)", "three or more chained chunks: older chunks forgotten, headroom over-estimated, accounting under-reports"),
 "C09-E": ("C09", "new_chunk_memory_details: page rounding adds FOOTER_SIZE (48) instead of OVERHEAD (64)", "request-dictated chunk whose 16-rounded size is 4096*k - 48: chunk 16 bytes too small (debug panic in try_, Err plus an extra chunk in release)"),
 "C10-E": ("C10", "alloc_try_with, new-chunk Err branch rewinds to the chunk START (data) instead of the footer (reverse of fix 7690071, this twin only)", "failing initialiser whose Result slot forced a new chunk: the whole chunk is reported as allocated by chunk iteration"),
 "C13-E": ("C13", "Vec::extend_with: length incremented BEFORE the element is written", "resize growing by >= 2 with a Clone that panics (needs unwinding)"),
 "C14-E": ("C14", "lossy decoder safe_get: `i > len` (reads one byte past the input)", "input ending in a truncated multi-byte sequence"),
 "C15-E": ("C15", "partition_dedup_by moves the survivor with copy_nonoverlapping instead of swap", "elements with destructors, a rejected duplicate followed by a kept element: leak + double drop"),
 "C17-E": ("C17", "Box::eq gains a ptr::eq identity shortcut", "non-reflexive value (NaN) compared with itself through the same box"),
 "C18-E": ("C18", "RawVec::amortized_new_size doubles used_cap instead of self.cap", "reserve on a partly filled vector (after clear/truncate/pop): no doubling, linear number of reallocations"),
 "C19-E": ("C19", "reserve_internal Exact arm: unchecked used_cap + needed_extra_cap", "non-empty Vec/String, reserve_exact/try_reserve_exact with additional > usize::MAX - len"),
}
ONLY = set(sys.argv[1:])  # seed ids to (re)write; trial logs of older rounds are not kept, so never rewrite those blindly
for sid, (prop, what, needs) in INFO.items():
    if not ONLY or sid not in ONLY:
        continue
    d = "/verif/seeded/" + sid
    if not os.path.isdir(d):
        continue
    conf = open(d + "/confirm.txt").read().strip() if os.path.exists(d + "/confirm.txt") else ""
    m = dict(re.findall(r"(\w+)=(-?\d+)", conf))
    trial = None
    logs = sorted(glob.glob("/var/tmp/trial_%s_*.log" % sid), key=os.path.getmtime)
    det = {}
    for lg in logs:
        p = re.search(r"_(C\d\d)\.log$", lg).group(1)
        txt = open(lg, errors="replace").read()
        fails = re.findall(r"^  (\S+)\s+FAIL", txt, re.M)
        descs = [x.strip() for x in re.findall(r"^  failed: (.*?)  @", txt, re.M)]
        det[p] = {"violation_lines": len(re.findall(r"^VIOLATION", txt, re.M)), "failing_harnesses": sorted(set(fails)), "failed_checks": sorted(set(descs))[:6]}
    meta = {
        "seed": sid, "breaks_property": prop, "change": what, "needs_to_manifest": needs,
        "origin": "written by an independent sub-agent that saw only the property text and a scratch worktree",
        "confirmed": {"existing_suite_with_change_rc": int(m.get("suite_with_change_rc", -1)), "demo_with_change_rc": int(m.get("demo_with_rc", -1)),
                      "demo_without_change_rc": int(m.get("demo_without_rc", -1)), "demo_with_change_release_rc": int(m.get("demo_with_release_rc", -1)),
                      "how": "tools/confirm_seed.sh: scratch worktree of /repo; cargo test --workspace --offline with the change; demo.rs as tests/zz_demo.rs with and without the change (dev), with the change (release)"},
        "checked_with": {p: dict(v, command="tools/trial.sh %s %s  (= ./check %s --tier quick on a worktree of /repo with patch.diff applied)" % (sid, p, p)) for p, v in det.items()},
        "detected": any(v["violation_lines"] > 0 for v in det.values()),
    }
    json.dump(meta, open(d + "/meta.json", "w"), indent=1)
    print(sid, meta["detected"], {p: v["violation_lines"] for p, v in det.items()})
