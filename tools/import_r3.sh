#!/bin/bash
# usage: tools/import_r3.sh C10 [C14 ...]  — import a round-3 sub-agent result as seeded/<ID>-E and confirm it
for P in "$@"; do
  O=/tmp/r3-$P-out; S=/verif/seeded/$P-E
  [ -f $O/patch.diff ] || { echo "$P: no patch"; continue; }
  mkdir -p $S; cp $O/patch.diff $S/patch.diff; cp $O/demo.rs $S/demo.rs; cp $O/notes.md $S/notes.md 2>/dev/null
  git -C /repo worktree remove --force /tmp/r3-$P >/dev/null 2>&1
  /verif/tools/confirm_seed.sh $P-E
done
