#!/bin/bash
# usage: tools/confirm_seed.sh <seed-dir-name>   e.g. C01-A
# Confirms in a scratch worktree: suite passes with the change; demo fails with it and passes without.
set -u
S=/verif/seeded/$1
W=/tmp/wt-confirm-$1
export CARGO_NET_OFFLINE=true RUSTFLAGS="--cap-lints allow" CARGO_TARGET_DIR=/tmp/confirm-target
git -C /repo worktree remove --force $W >/dev/null 2>&1
git -C /repo worktree add -q --detach $W HEAD || exit 3
cd $W
FEAT="--features collections,boxed,allocator-api2"
git apply $S/patch.diff || { echo "patch does not apply"; exit 3; }
cargo test --workspace --no-fail-fast --offline > $S/suite_with.log 2>&1; suite=$?
cp $S/demo.rs tests/zz_demo.rs
timeout 600 cargo test --offline $FEAT --test zz_demo -- --test-threads=1 > $S/demo_with.log 2>&1; dw=$?
git checkout -q -- src
timeout 600 cargo test --offline $FEAT --test zz_demo -- --test-threads=1 > $S/demo_without.log 2>&1; dwo=$?
git apply $S/patch.diff
timeout 600 cargo test --release --offline $FEAT --test zz_demo -- --test-threads=1 > $S/demo_with_release.log 2>&1; dwr=$?
cd /; git -C /repo worktree remove --force $W
echo "$1 suite_with_change_rc=$suite demo_with_rc=$dw demo_without_rc=$dwo demo_with_release_rc=$dwr" | tee $S/confirm.txt
