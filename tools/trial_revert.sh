#!/bin/bash
# usage: tools/trial_revert.sh <fix-commit> <prop> [extra check args]
# Runs ./check <prop> on a private worktree of /repo in which the given fix: commit is reverted:
# a `fixed:` entry suppresses nothing, the violation must be reported again.
C=$1; shift; P=$1; shift
W=/tmp/trial-wt-revert-$C-$P
git -C /repo worktree remove --force $W >/dev/null 2>&1
git -C /repo worktree add -q --detach $W HEAD || exit 3
git -C /repo show $C -- src | git -C $W apply -R || exit 3
VERIF_REPO=$W VERIF_NO_EVIDENCE=1 /verif/check $P --no-replay "$@" > /var/tmp/trial_revert_${C}_$P.log 2>&1
rc=$?
git -C /repo worktree remove --force $W
echo "revert $C $P rc=$rc $(grep -c '^VIOLATION' /var/tmp/trial_revert_${C}_$P.log) violations; $(grep -h 'failed:' /var/tmp/trial_revert_${C}_$P.log | head -2 | cut -c1-140 | tr '\n' '|')"
