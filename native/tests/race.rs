//! D5 (C20): two threads, each with its OWN fresh arena, make a zero-sized allocation.
//! Run under Miri (`cargo +nightly miri test --test race`): it reports a data race on the
//! shared static EMPTY_CHUNK while the defect is present.
use bumpalo::Bump;

#[test]
fn d5_two_fresh_arenas_zst() {
    let t = std::thread::spawn(|| {
        let b = Bump::new();
        b.alloc(());
    });
    let b = Bump::new();
    b.alloc(());
    t.join().unwrap();
}
