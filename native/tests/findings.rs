//! One test per defect candidate found by the solver checks (DESIGN.md §8).  Each test asserts the
//! PROPERTY; it fails while the defect is present and passes once it is repaired.
use bumpalo::Bump;
use bumpalo_verif_native as ga;
use std::alloc::Layout;

#[global_allocator]
static A: ga::Ctl = ga::Ctl;

/// D1 (C08): after reset the accounting must equal what the arena holds.
#[test]
fn d1_reset_accounting() {
    ga::arm(0);
    let mut b = Bump::new();
    b.alloc(1u8);
    let held = ga::live_bytes() as usize;
    assert_eq!(b.allocated_bytes_including_metadata(), held);
    b.reset();
    let held = ga::live_bytes() as usize;
    ga::disarm();
    assert_eq!(b.allocated_bytes_including_metadata(), held, "including_metadata != bytes held after reset");
}

/// D2 (C11): a failed initialiser whose Result slot forced a new chunk must leave the space reusable.
#[test]
fn d2_try_with_new_chunk_rewind() {
    ga::arm(0);
    let b = Bump::new();
    b.alloc([0u8; 400]); // first chunk (448 usable) nearly full
    let r: Result<&mut [u8; 200], u32> = b.alloc_try_with(|| Err(7));
    assert_eq!(r.unwrap_err(), 7);
    let n = ga::nalloc();
    let _ = b.try_alloc_layout(Layout::new::<Result<[u8; 200], u32>>()).unwrap();
    let n2 = ga::nalloc();
    ga::disarm();
    assert_eq!(n, n2, "follow-up request of the same layout went to the global allocator");
}

/// D3 (C09, dev profile): a try_ method must not panic.
#[test]
fn d3_zst_small_limit_no_panic() {
    let b = Bump::new();
    b.set_allocation_limit(Some(8));
    let l = Layout::from_size_align(0, 4096).unwrap();
    let r = std::panic::catch_unwind(std::panic::AssertUnwindSafe(|| b.try_alloc_layout(l).is_ok()));
    assert!(r.is_ok(), "try_alloc_layout panicked");
}

/// D4 (C09): a try_ method must terminate when the global allocator refuses.
#[test]
fn d4_zst_small_limit_refusing_allocator_terminates() {
    use std::sync::mpsc;
    let (tx, rx) = mpsc::channel();
    std::thread::spawn(move || {
        let b = Bump::new();
        b.set_allocation_limit(Some(100));
        let l = Layout::from_size_align(0, 4096).unwrap();
        ga::arm(u64::MAX);
        let r = b.try_alloc_layout(l).is_ok();
        ga::disarm();
        let _ = tx.send(r);
    });
    let r = rx.recv_timeout(std::time::Duration::from_secs(5));
    assert!(r.is_ok(), "try_alloc_layout did not return within 5 s (halving loop never ends)");
}

/// D7 (C07): a limit below what is already held must still stop further acquisition.
#[test]
fn d7_limit_below_held() {
    ga::arm(0);
    let b = Bump::new();
    b.alloc(1u8);
    b.set_allocation_limit(Some(100));
    let before = ga::live_bytes();
    let r = b.try_alloc_layout(Layout::from_size_align(1000, 1).unwrap());
    let after = ga::live_bytes();
    ga::disarm();
    assert!(r.is_err() && before == after, "arena acquired {} more bytes although it already held more than its limit", after - before);
}

/// D8 (C04): the reference returned by alloc_try_with must honour the arena's minimum alignment.
#[test]
fn d8_try_with_min_align() {
    let b = Bump::<16>::with_min_align();
    let r: Result<&mut u64, u32> = b.alloc_try_with(|| Ok(5u64));
    let p = r.unwrap() as *mut u64 as usize;
    assert_eq!(p % 16, 0, "alloc_try_with on Bump<16> returned {:#x}, not aligned to the minimum alignment", p);
}

/// D9 (C04): a fresh Bump<16> must serve (zero-sized) requests with 16-aligned pointers and must not
/// panic; depends on where the linker put the static sentinel unless its type is 16-aligned.
#[test]
fn d9_fresh_arena_min_align_16() {
    let b = Bump::<16>::with_min_align();
    let r = std::panic::catch_unwind(std::panic::AssertUnwindSafe(|| {
        let z = b.alloc_layout(Layout::from_size_align(0, 1).unwrap());
        z.as_ptr() as usize
    }));
    let p = r.expect("allocation on a fresh Bump<16> panicked");
    assert_eq!(p % 16, 0, "zero-sized allocation on a fresh Bump<16> not aligned to 16");
}
