//! A global allocator wrapper with a ledger and a programmable refusal policy,
//! so that native runs can reproduce what the A-null / A-pool models do.
use std::alloc::{GlobalAlloc, Layout, System};
use std::cell::Cell;
use std::sync::atomic::{AtomicUsize, Ordering::SeqCst};

pub struct Ctl;

thread_local! {
    /// refuse every request whose ordinal (since arm) has its bit set in the mask; usize::MAX = refuse all
    static MASK: Cell<u64> = const { Cell::new(0) };
    static ARMED: Cell<bool> = const { Cell::new(false) };
    static ORD: Cell<u32> = const { Cell::new(0) };
    static LIVE_BYTES: Cell<isize> = const { Cell::new(0) };
    static NALLOC: Cell<usize> = const { Cell::new(0) };
    static NFREE: Cell<usize> = const { Cell::new(0) };
}
pub static TOTAL_LIVE: AtomicUsize = AtomicUsize::new(0);

pub fn arm(mask: u64) {
    MASK.with(|m| m.set(mask));
    ORD.with(|o| o.set(0));
    LIVE_BYTES.with(|l| l.set(0));
    NALLOC.with(|n| n.set(0));
    NFREE.with(|n| n.set(0));
    ARMED.with(|a| a.set(true));
}
pub fn disarm() {
    ARMED.with(|a| a.set(false));
}
/// bytes obtained minus bytes returned on this thread since `arm`
pub fn live_bytes() -> isize {
    LIVE_BYTES.with(|l| l.get())
}
pub fn nalloc() -> usize {
    NALLOC.with(|n| n.get())
}
pub fn nfree() -> usize {
    NFREE.with(|n| n.get())
}

unsafe impl GlobalAlloc for Ctl {
    unsafe fn alloc(&self, l: Layout) -> *mut u8 {
        let armed = ARMED.try_with(|a| a.get()).unwrap_or(false);
        if armed {
            let ord = ORD.with(|o| {
                let v = o.get();
                o.set(v + 1);
                v
            });
            let mask = MASK.with(|m| m.get());
            let refuse = mask == u64::MAX || (ord < 64 && (mask >> ord) & 1 == 1);
            if refuse {
                return std::ptr::null_mut();
            }
            let p = System.alloc(l);
            if !p.is_null() {
                LIVE_BYTES.with(|x| x.set(x.get() + l.size() as isize));
                NALLOC.with(|n| n.set(n.get() + 1));
            }
            return p;
        }
        System.alloc(l)
    }
    unsafe fn dealloc(&self, p: *mut u8, l: Layout) {
        let armed = ARMED.try_with(|a| a.get()).unwrap_or(false);
        if armed {
            LIVE_BYTES.with(|x| x.set(x.get() - l.size() as isize));
            NFREE.with(|n| n.set(n.get() + 1));
        }
        System.dealloc(p, l)
    }
}
