#!/bin/sh
# Offline setup: nothing to build ahead of time (the harness crate is regenerated from /repo on
# every check run).  Verifies that the tools the checks need are present.
set -e
cd "$(dirname "$0")"
command -v cargo >/dev/null
cargo kani --version
cbmc --version
python3 -c "import json,sys; json.load(open('MANIFEST.json')); print('manifest ok')"
mkdir -p evidence replays
