// scratch experiments (not registered in any property)
use super::common::*;
use crate::{Bump, ChunkFooter, FOOTER_SIZE};
use core::alloc::Layout;
use core::cell::Cell;
use core::mem::ManuallyDrop;
use core::ptr::NonNull;

pub fn xf3<const SYM_MASK: bool, const SYM_LIMIT: bool, const POST: u8, const K: usize>() {
    unsafe {
        let mask: u8 = if SYM_MASK { kani::any() } else { 0 };
        pool_reset(mask);
        DISPLACE = 1;
        let cur = super::f6::build_list::<1, K>();
        let limit: Option<usize> = if SYM_LIMIT { kani::any() } else { None };
        let bump = ManuallyDrop::new(Bump::<1> {
            current_chunk_footer: Cell::new(cur),
            allocation_limit: Cell::new(limit),
        });
        let nrec0 = NREC;
        let size: usize = 400;
        let align = 1;
        let layout = Layout::from_size_align(size, align).unwrap();
        let r = bump.try_alloc_layout(layout);
        if POST >= 1 {
            if let Ok(p) = r {
                let p = p.as_ptr() as usize;
                assert!(p & (align - 1) == 0);
                if NREC > nrec0 {
                    let rec = LEDGER[nrec0];
                    assert!(p >= rec.ptr && p + size <= rec.ptr + rec.size - FOOTER_SIZE);
                }
            }
        }
        if POST >= 2 {
            if NREC > nrec0 {
                let f = bump.current_chunk_footer.get();
                assert!(f.as_ref().prev.get() == cur);
                assert!(bump.allocated_bytes_including_metadata() == ledger_live_bytes());
            }
        }
        kani::cover!(r.is_ok() && NREC > nrec0, "REACH: new chunk");
    }
}
macro_rules! x {
    ($name:ident, $a:expr, $b:expr, $c:expr, $k:expr, $u:expr) => {
        #[kani::proof]
        #[kani::unwind($u)]
        #[kani::stub(crate::core_alloc::alloc::alloc, alloc_pool)]
        #[kani::stub(crate::core_alloc::alloc::dealloc, dealloc_pool)]
        pub fn $name() { xf3::<$a, $b, $c, $k>(); }
    };
}
x!(x_f3_a, false, false, 0, 1, 5);
x!(x_f3_b, true, false, 0, 1, 5);
x!(x_f3_c, true, true, 0, 1, 5);
x!(x_f3_d, true, true, 1, 1, 5);
x!(x_f3_e, true, true, 2, 1, 5);
x!(x_f3_f, false, true, 0, 1, 5);

pub fn xf3k<const K: usize, const DISP: u8, const CONC_OFF: bool>() {
    unsafe {
        pool_reset(0);
        DISPLACE = DISP;
        let cur = if CONC_OFF && K == 1 {
            let base = super::f6::big_base(0);
            let c = place_chunk::<1>(base, 448, 0, 8, 16, empty_footer(), true);
            pool_register(base, 448 + FOOTER_SIZE, 16);
            NonNull::new_unchecked(c.footer)
        } else {
            super::f6::build_list::<1, K>()
        };
        let bump = ManuallyDrop::new(Bump::<1> {
            current_chunk_footer: Cell::new(cur),
            allocation_limit: Cell::new(None),
        });
        let layout = Layout::from_size_align(400, 1).unwrap();
        let r = bump.try_alloc_layout(layout);
        kani::cover!(r.is_ok(), "REACH: ok");
    }
}
macro_rules! xk {
    ($name:ident, $k:expr, $d:expr, $c:expr) => {
        #[kani::proof]
        #[kani::unwind(5)]
        #[kani::stub(crate::core_alloc::alloc::alloc, alloc_pool)]
        #[kani::stub(crate::core_alloc::alloc::dealloc, dealloc_pool)]
        pub fn $name() { xf3k::<$k, $d, $c>(); }
    };
}
xk!(x_k0_d0, 0, 0, false);
xk!(x_k0_d1, 0, 1, false);
xk!(x_k1_d0_conc, 1, 0, true);
xk!(x_k1_d0_sym, 1, 0, false);

#[kani::proof]
#[kani::unwind(5)]
#[kani::stub(crate::core_alloc::alloc::alloc, alloc_null)]
#[kani::stub(crate::core_alloc::alloc::dealloc, dealloc_pool)]
pub fn x_k1_null() { xf3k::<1, 0, false>(); }

/// symbolic finger, but constrained so that the request never fits: the fast path always fails
pub fn xf3n() {
    unsafe {
        pool_reset(0);
        DISPLACE = 0;
        let base = super::f6::big_base(0);
        let off: usize = kani::any();
        kani::assume(off < 400);
        let c = place_chunk::<1>(base, 448, 0, off, 16, empty_footer(), true);
        pool_register(base, 448 + FOOTER_SIZE, 16);
        let cur = NonNull::new_unchecked(c.footer);
        let bump = ManuallyDrop::new(Bump::<1> {
            current_chunk_footer: Cell::new(cur),
            allocation_limit: Cell::new(None),
        });
        let layout = Layout::from_size_align(400, 1).unwrap();
        let r = bump.try_alloc_layout(layout);
        kani::cover!(r.is_ok(), "REACH: ok");
    }
}
#[kani::proof]
#[kani::unwind(5)]
#[kani::stub(crate::core_alloc::alloc::alloc, alloc_pool)]
#[kani::stub(crate::core_alloc::alloc::dealloc, dealloc_pool)]
pub fn x_k1_nofit() { xf3n(); }
