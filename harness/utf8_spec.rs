// RFC 3629 / Unicode Table 3-7 well-formedness and maximal-subpart spec (shared by S1 and S2).
/// Length of the well-formed UTF-8 sequence starting at b[i] (0 if ill-formed / truncated),
/// and the length of the "maximal subpart" that a lossy decoder replaces by one U+FFFD.
/// RFC 3629 / Unicode Table 3-7.
pub fn seq_at(b: &[u8; 5], n: usize, i: usize) -> (usize, usize) {
    let get = |k: usize| -> u8 {
        if k < n {
            b[k]
        } else {
            0
        }
    };
    let b0 = get(i);
    if b0 < 0x80 {
        return (1, 0);
    }
    let cont = |x: u8| x & 0xC0 == 0x80;
    if b0 >= 0xC2 && b0 <= 0xDF {
        if cont(get(i + 1)) {
            return (2, 0);
        }
        return (0, 1);
    }
    if b0 >= 0xE0 && b0 <= 0xEF {
        let b1 = get(i + 1);
        let ok1 = match b0 {
            0xE0 => b1 >= 0xA0 && b1 <= 0xBF,
            0xED => b1 >= 0x80 && b1 <= 0x9F,
            _ => b1 >= 0x80 && b1 <= 0xBF,
        };
        if !ok1 {
            return (0, 1);
        }
        if !cont(get(i + 2)) {
            return (0, 2);
        }
        return (3, 0);
    }
    if b0 >= 0xF0 && b0 <= 0xF4 {
        let b1 = get(i + 1);
        let ok1 = match b0 {
            0xF0 => b1 >= 0x90 && b1 <= 0xBF,
            0xF4 => b1 >= 0x80 && b1 <= 0x8F,
            _ => b1 >= 0x80 && b1 <= 0xBF,
        };
        if !ok1 {
            return (0, 1);
        }
        if !cont(get(i + 2)) {
            return (0, 2);
        }
        if !cont(get(i + 3)) {
            return (0, 3);
        }
        return (4, 0);
    }
    (0, 1)
}

/// (valid prefix length, broken length) of the first lossy chunk of b[..n]; (n, 0) if all valid.
pub fn spec_first_chunk(b: &[u8; 5], n: usize) -> (usize, usize) {
    let mut i = 0;
    let mut steps = 0;
    while i < n && steps < 5 {
        let (ok, bad) = seq_at(b, n, i);
        if ok == 0 {
            let bl = if i + bad > n { n - i } else { bad };
            return (i, bl);
        }
        i += ok;
        steps += 1;
    }
    (n, 0)
}

pub fn spec_valid(b: &[u8; 5], n: usize) -> bool {
    let (v, br) = spec_first_chunk(b, n);
    v == n && br == 0
}

pub fn is_boundary(b: &[u8; 5], n: usize, i: usize) -> bool {
    i == 0 || i == n || (i < n && b[i] & 0xC0 != 0x80)
}

