// F4 — slow-decide: the slow path's *decisions* (which chunks it asks the global
// allocator for) at full 64-bit magnitudes, under A-null (every request refused and
// logged).  The slow path reads only `layout.size()` and `allocated_bytes` of the
// current footer, so the state is a stand-alone footer object: no chunk memory
// exists and magnitudes are unbounded (DESIGN §6 C07/C09/C18).
use super::common::*;
use crate::{Bump, ChunkFooter, FOOTER_SIZE};
use core::alloc::Layout;
use core::cell::Cell;
use core::mem::ManuallyDrop;
use core::ptr::NonNull;

const DEFAULT: usize = crate::DEFAULT_CHUNK_SIZE_WITHOUT_FOOTER;
pub const MAX_HELD: usize = 1 << 56;

/// Check every logged request against the limit / alignment floor / size floor.
/// `i` is a symbolic log index, so one call covers every entry.
unsafe fn check_log<const M: usize>(layout: Layout, limit: Option<usize>, held: usize) {
    vassert!(NLOG <= LOGN, "NEVER: [C09] more requests than the log holds (bound)");
    let i: usize = kani::any();
    if !(i < NLOG && i < LOGN) {
        return;
    }
    let (rs, ra) = LOG[i];
    vassert!(ra.is_power_of_two() && ra >= 16 && ra >= M && ra >= layout.align(),
            "NEVER: [C04] chunk requested with an alignment below max(16, MIN_ALIGN, request)");
    vassert!(rs >= FOOTER_SIZE && rs - FOOTER_SIZE >= layout.size(), "NEVER: [C01] chunk requested that cannot hold the request");
    vassert!(rs <= isize::MAX as usize, "NEVER: [C09,C19] chunk request above isize::MAX reached the global allocator (invalid Layout)");
    if let Some(l) = limit {
        // bytes held for allocation after the acquisition = held + usable size of the new chunk
        let usable = rs - FOOTER_SIZE;
        vassert!(held <= l && usable <= l - held,
                "NEVER: [C07] chunk requested from the global allocator that would exceed the allocation limit");
    }
    if limit.is_none() {
        // "as if the feature did not exist": without a limit the arena never asks for less than
        // max(request, default chunk)
        vassert!(rs - FOOTER_SIZE >= DEFAULT, "NEVER: [C07,C18] arena without a limit asked for a chunk below the default size");
    }
    // halving: requests never grow
    if i + 1 < NLOG && i + 1 < LOGN {
        vassert!(LOG[i + 1].0 <= rs, "NEVER: [C18] a later attempt asked for more than an earlier one");
    }
}

/// Arena with a real (stand-alone) current footer of any magnitude.
pub fn f4_decide<const M: usize>() {
    unsafe {
        NLOG = 0;
        let usable: usize = kani::any();
        kani::assume(usable >= 16 && usable <= MAX_HELD && usable & 15 == 0);
        let chunk_align = any_pow2(4, 12);
        let held: usize = kani::any();
        kani::assume(held >= usable && held <= 2 * MAX_HELD); // RI clause 3: held = older chunks + this one
        let mut dummy = [0u8; 16];
        let d = NonNull::new_unchecked(dummy.as_mut_ptr());
        let f = ChunkFooter {
            data: d,
            layout: Layout::from_size_align_unchecked(usable + FOOTER_SIZE, chunk_align),
            prev: Cell::new(empty_footer()),
            ptr: Cell::new(d),
            allocated_bytes: held,
        };
        let limit: Option<usize> = kani::any();
        let bump = ManuallyDrop::new(Bump::<M> {
            current_chunk_footer: Cell::new(NonNull::from(&f)),
            allocation_limit: Cell::new(limit),
        });
        let layout = any_layout(12);
        // loop bound: at most 5 halvings (ratio bound, DESIGN §6 C07)
        let min = if layout.size() > DEFAULT { layout.size() } else { DEFAULT };
        kani::assume((2 * usable) / min < 32);

        let r = bump.alloc_layout_slow(layout);

        vassert!(r.is_none(), "NEVER: [C09] success although the global allocator refused everything");
        vassert!(bump.current_chunk_footer.get() == NonNull::from(&f), "NEVER: [C09] current chunk changed by a failed request");
        vassert!(f.allocated_bytes == held, "NEVER: [C08] accounting changed by a failed request");
        vassert!(empty_is_pristine(), "NEVER: [C20] shared static sentinel modified");
        check_log::<M>(layout, limit, held);
        if NLOG > 0 {
            let first = LOG[0].0 - FOOTER_SIZE;
            // C18 lemma 3: doubling, whenever the doubled size is admissible
            if limit.is_none() && 2 * usable + 4096 + FOOTER_SIZE <= isize::MAX as usize {
                vassert!(first >= 2 * usable, "NEVER: [C18] first attempt below twice the current chunk");
            }
            vassert!(first >= layout.size(), "NEVER: [C18] first attempt below the request");
        }
        if limit.is_none() {
            // "as if the feature did not exist": without a limit something is always attempted
            // unless no admissible size exists at all
            if layout.size() <= (isize::MAX as usize) - 8192 && 2 * usable <= (isize::MAX as usize) - 8192 {
                vassert!(NLOG >= 1, "NEVER: [C07] no attempt although no limit is set");
            }
        }
        kani::cover!(NLOG >= 3, "REACH: three or more halving attempts");
        kani::cover!(limit.is_some() && NLOG == 0, "REACH: limit refused every candidate");
        kani::cover!(limit.is_some() && NLOG >= 1 && NLOG < 3, "REACH: limit admitted only the smaller candidates");
        kani::cover!(usable > (1 << 40), "REACH: huge current chunk");
        kani::cover!(layout.size() > (1 << 40), "REACH: huge request");
        kani::cover!(limit.map_or(false, |l| held > l), "REACH: limit already below held bytes");
        kani::cover!(true, "REACH: end of harness");
    }
}

/// Chunk-less arena (current = the shared static sentinel), non-zero-sized request:
/// covers the small-limit bypass of the minimum chunk size.
pub fn f4_fresh<const M: usize, const ZST: bool>() {
    unsafe {
        NLOG = 0;
        let limit: Option<usize> = kani::any();
        let bump = ManuallyDrop::new(Bump::<M> {
            current_chunk_footer: Cell::new(empty_footer()),
            allocation_limit: Cell::new(limit),
        });
        let layout = any_layout(12);
        if ZST {
            kani::assume(layout.size() == 0);
        } else {
            kani::assume(layout.size() >= 1 && layout.size() <= 4096);
        }
        let r = bump.alloc_layout_slow(layout);
        vassert!(r.is_none(), "NEVER: [C09] success although the global allocator refused everything");
        vassert!(bump.current_chunk_footer.get() == empty_footer(), "NEVER: [C09] current chunk changed by a failed request");
        vassert!(empty_is_pristine(), "NEVER: [C20] shared static sentinel modified");
        check_log::<M>(layout, limit, 0);
        if limit.is_none() {
            vassert!(NLOG >= 1, "NEVER: [C07] no attempt although no limit is set");
            vassert!(LOG[0].0 - FOOTER_SIZE >= DEFAULT, "NEVER: [C18] first chunk below the default size");
        }
        kani::cover!(limit.map_or(false, |l| l < DEFAULT) && NLOG >= 1, "REACH: small-limit bypass asked for a chunk below the default size");
        kani::cover!(limit.map_or(false, |l| l < DEFAULT) && NLOG >= 3, "REACH: small-limit bypass, several attempts");
        kani::cover!(limit == Some(0), "REACH: limit zero");
        kani::cover!(true, "REACH: end of harness");
    }
}

macro_rules! f4 {
    ($a:ident, $b:ident, $z:ident, $m:expr) => {
        #[kani::proof]
        #[kani::unwind(8)]
        #[kani::stub(crate::core_alloc::alloc::alloc, alloc_null)]
        #[kani::stub(crate::core_alloc::alloc::dealloc, dealloc_count)]
        pub fn $a() {
            f4_decide::<$m>();
        }
        #[kani::proof]
        #[kani::unwind(16)]
        #[kani::stub(crate::core_alloc::alloc::alloc, alloc_null)]
        #[kani::stub(crate::core_alloc::alloc::dealloc, dealloc_count)]
        pub fn $b() {
            f4_fresh::<$m, false>();
        }
        #[kani::proof]
        #[kani::unwind(16)]
        #[kani::stub(crate::core_alloc::alloc::alloc, alloc_null)]
        #[kani::stub(crate::core_alloc::alloc::dealloc, dealloc_count)]
        pub fn $z() {
            f4_fresh::<$m, true>();
        }
    };
}
f4!(f4_decide_m1, f4_fresh_m1, f4_fresh_zst_m1, 1);
f4!(f4_decide_m8, f4_fresh_m8, f4_fresh_zst_m8, 8);
f4!(f4_decide_m16, f4_fresh_m16, f4_fresh_zst_m16, 16);
