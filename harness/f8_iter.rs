// F8b — chunk iteration over hand-made lists of 1..3 chunks with symbolic fingers
// (DESIGN §6 C10).  The step lemma F8a (no padding for uniform requests) lives in F1/F3.
use super::common::*;
use super::f6::{build_list, USABLE};
use crate::{Bump, ChunkFooter, FOOTER_SIZE};
use core::cell::Cell;
use core::mem::ManuallyDrop;

pub fn f8_iter<const M: usize, const K: usize>() {
    unsafe {
        pool_reset(0);
        super::f6::CHUNK_ALIGN_OVERRIDE = 16;
        let cur = build_list::<M, K>();
        let mut bump = ManuallyDrop::new(Bump::<M> {
            current_chunk_footer: Cell::new(cur),
            allocation_limit: Cell::new(kani::any()),
        });
        // expected: walk the list ourselves, newest first
        let mut exp_ptr = [0usize; 3];
        let mut exp_len = [0usize; 3];
        let mut exp_lo = [0usize; 3];
        let mut exp_hi = [0usize; 3];
        let mut f = cur;
        let mut i = 0;
        while i < K {
            let fr = f.as_ref();
            let p = fr.ptr.get().as_ptr() as usize;
            let fa = f.as_ptr() as usize;
            exp_ptr[i] = p;
            exp_len[i] = fa - p;
            exp_lo[i] = fr.data.as_ptr() as usize;
            exp_hi[i] = fa;
            f = fr.prev.get();
            i += 1;
        }
        let s0 = snap(cur.as_ptr());
        // raw iterator
        let mut n = 0usize;
        for (p, len) in bump.iter_allocated_chunks_raw() {
            vassert!(n < K, "NEVER: [C10] raw iteration yields more items than chunks held (sentinel yielded?)");
            vassert!(p as usize == exp_ptr[n] && len == exp_len[n], "NEVER: [C10] raw iteration item is not (finger, footer - finger) of the n-th newest chunk");
            vassert!(p as usize >= exp_lo[n] && p as usize + len <= exp_hi[n], "NEVER: [C10] raw iteration item not inside its chunk");
            n += 1;
        }
        vassert!(n == K, "NEVER: [C10] raw iteration does not yield one item per chunk");
        // safe iterator yields the same sequence
        let mut m = 0usize;
        for s in bump.iter_allocated_chunks() {
            vassert!(m < K, "NEVER: [C10] iteration yields more items than chunks held");
            vassert!(s.as_ptr() as usize == exp_ptr[m] && s.len() == exp_len[m], "NEVER: [C10] safe and raw iteration differ");
            m += 1;
        }
        vassert!(m == K, "NEVER: [C10] iteration does not yield one slice per chunk");
        // iteration is read-only
        vassert!(snap(cur.as_ptr()) == s0 && cur.as_ref().ptr.get().as_ptr() as usize == exp_ptr[0], "NEVER: [C10] iteration modified the arena");
        vassert!(empty_is_pristine(), "NEVER: [C20] shared static sentinel modified");
        kani::cover!(K < 2 || (exp_len[0] > 0 && exp_len[1] > 0), "REACH: two non-empty slices");
        kani::cover!(exp_len[0] == 0, "REACH: empty newest chunk");
        kani::cover!(exp_len[0] == USABLE[K - 1], "REACH: full newest chunk");
    }
}

macro_rules! f8 {
    ($name:ident, $m:expr, $k:expr) => {
        #[kani::proof]
        #[kani::unwind(6)]
        #[kani::stub(crate::core_alloc::alloc::alloc, alloc_cut)]
        #[kani::stub(crate::core_alloc::alloc::dealloc, dealloc_count)]
        pub fn $name() {
            f8_iter::<$m, $k>();
        }
    };
}
f8!(f8_iter_m1_k1, 1, 1);
f8!(f8_iter_m1_k2, 1, 2);
f8!(f8_iter_m1_k3, 1, 3);
f8!(f8_iter_m8_k2, 8, 2);
f8!(f8_iter_m16_k3, 16, 3);
