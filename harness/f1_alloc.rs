// F1 — step-alloc: one public `try_alloc_layout` from an arbitrary valid chunk
// state (DESIGN §6 C01/C04/C07/C09/C18).  Global allocator: A-null (refuses
// everything, logs), so every `Ok` is a fast-path success and every `Err` went
// through the whole halving loop of the slow path.
use super::common::*;
use crate::{Bump, ChunkFooter, FOOTER_SIZE};
use core::alloc::Layout;

#[inline(always)]
pub fn round_up(n: usize, a: usize) -> usize {
    (n + (a - 1)) & !(a - 1)
}

/// The implementation's own padding rule, used as the conservative meaning of
/// "the request fits in the space left in the current chunk".
#[inline(always)]
pub fn fits<const M: usize>(size: usize, align: usize, capacity: usize) -> bool {
    let ea = if align > M { align } else { M };
    // no overflow: callers bound size by capacity first
    size <= capacity && round_up(size, ea) + (ea - M) <= capacity
}

pub fn f1_step<const M: usize, const TOTAL: usize, const CUT: bool>() {
    let mut back = Backing::<TOTAL>([0u8; TOTAL]);
    let end = TOTAL - FOOTER_SIZE;
    unsafe {
        NLOG = 0;
        NDEALLOC = 0;
        let c = sym_chunk::<M>(back.0.as_mut_ptr(), end, empty_footer(), false);
        // CUT: A-cut model; the slow path is outside the harness, so the limit (which only
        // the slow path reads) is left unset.  !CUT: A-null model with a symbolic limit.
        let limit: Option<usize> = if CUT { None } else { kani::any() };
        let bump = mk_bump::<M>(c.footer, limit);

        let data = c.data as usize;
        let ptr_old = c.ptr0 as usize;
        let foot = c.footer as usize;
        let cap_old = bump.chunk_capacity();
        vassert!(cap_old == ptr_old - data, "NEVER: [C18] chunk_capacity is not finger minus chunk start");

        // Probe bytes at CONCRETE offsets (the two ends of the backing object's usable
        // part) holding symbolic values.  A symbolic-offset probe was measured: it makes
        // every footer read depend on a symbolic-index store/select and costs 8-10x; the
        // allocation path performs no store into chunk memory at all, the content-frame
        // claim is carried by the F2 content harnesses (small blocks).
        let live = foot - ptr_old;
        let pv: u8 = kani::any();
        let has_probe = live > 0;
        if has_probe {
            *c.base.add(end - 1) = pv; // topmost live byte
        }
        let layout = any_layout(12);
        let size = layout.size();
        let align = layout.align();
        let s0 = snap(c.footer);
        let ab0 = bump.allocated_bytes();

        let res = bump.try_alloc_layout(layout);

        let s1 = snap(c.footer);
        let ptr_new = c.cur_ptr() as usize;
        // footer bookkeeping other than the finger is never touched, nothing freed
        vassert!(s0 == s1, "NEVER: [C01,C08,C09] footer fields other than the finger changed");
        vassert!(NDEALLOC == 0, "NEVER: [C03] a &self operation gave memory back");
        vassert!(bump.allocated_bytes() == ab0, "NEVER: [C08] accounting changed without a chunk change");
        vassert!(bump.allocation_limit() == limit, "NEVER: [C07] limit changed by an allocation");
        vassert!(empty_is_pristine(), "NEVER: [C20] shared static sentinel modified");
        if has_probe {
            vassert!(*c.base.add(end - 1) == pv, "NEVER: [C02] live byte changed");
        }
        match res {
            Ok(p) => {
                let p = p.as_ptr() as usize;
                vassert!(p != 0, "NEVER: [C01] null pointer returned");
                vassert!(NLOG == 0, "NEVER: [C07,C18] success although the global allocator refused");
                // C01: inside the former free region => inside the chunk, below the
                // footer, disjoint from every live block
                vassert!(p >= data, "NEVER: [C01,C19] block starts below the chunk");
                vassert!(size <= ptr_old - p, "NEVER: [C01,C19] block reaches into the allocated region (overlaps a live block or the footer; more memory claimed than reserved)");
                vassert!(p <= ptr_old, "NEVER: [C01] block above the old finger");
                // C04
                vassert!(p & (align - 1) == 0, "NEVER: [C04] requested alignment not honoured");
                vassert!(p & (M - 1) == 0, "NEVER: [C04] minimum alignment not honoured");
                // RI re-established: finger at or below the new block, in the chunk, M-aligned
                vassert!(ptr_new >= data && ptr_new <= p, "NEVER: [C01] finger not at or below the new block");
                vassert!(ptr_new & (M - 1) == 0, "NEVER: [C04] finger lost the minimum alignment");
                // C18 lemma 2: exact consumption for uniform requests
                if align <= M && size & (M - 1) == 0 {
                    vassert!(bump.chunk_capacity() == cap_old - size, "NEVER: [C18] capacity not lowered by exactly size");
                }
                // C10 lemma F8a: no padding for uniform requests
                if align >= M && align <= 16 && size & (align - 1) == 0 && ptr_old & (align - 1) == 0 {
                    vassert!(p == ptr_old - size, "NEVER: [C10] padding inserted between uniform objects");
                }
                kani::cover!(align >= 256 && size > 0, "REACH: over-aligned non-empty success");
                kani::cover!(align >= 64 && data & (align - 1) != 0, "REACH: over-aligned success on a chunk base that lacks that alignment");
                kani::cover!(p == data && size > 0, "INFO: exact fit");
                kani::cover!(size == 0 && ptr_new < ptr_old, "INFO: ZST consumed padding");
                kani::cover!(M == 1 || align < M, "REACH: Ordering::Less");
                kani::cover!(align == M, "REACH: Ordering::Equal");
                kani::cover!(align > M, "REACH: Ordering::Greater");
            }
            Err(_) => {
                // C09: failure changes nothing
                vassert!(ptr_new == ptr_old, "NEVER: [C09] finger moved by a failed request");
                // C07/C18: a request that fits succeeds whatever the limit
                vassert!(!fits::<M>(size, align, cap_old), "NEVER: [C07,C09,C18] a request that fits was refused");
                kani::cover!(size == 0, "REACH: [err] ZST refused (over-aligned below chunk start)");
                kani::cover!(NLOG > 1, "INFO: [err] more than one size tried");
                kani::cover!(limit.is_some() && NLOG == 0, "REACH: [err] limit filtered every candidate");
                // every request the arena made honours the limit and the alignment floor
                // (checked at one symbolic log index = at every index)
                let i: usize = kani::any();
                if i < NLOG && i < LOGN {
                let (rs, ra) = LOG[i];
                vassert!(NLOG <= LOGN, "NEVER: [C09] more requests than the log holds");
                vassert!(ra >= 16 && ra >= align && ra >= M, "NEVER: [C04] chunk alignment floor");
                vassert!(rs >= FOOTER_SIZE && rs - FOOTER_SIZE >= size, "NEVER: [C01] chunk smaller than the request");
                if let Some(l) = limit {
                    vassert!(ab0 <= l && rs - FOOTER_SIZE <= l - ab0, "NEVER: [C07] requested chunk exceeds the limit");
                }
                }
            }
        }
        kani::cover!(true, "REACH: end of harness");
    }
}

macro_rules! f1 {
    ($name:ident, $m:expr, $total:expr, $unwind:expr, null) => {
        #[kani::proof]
        #[kani::unwind($unwind)]
        #[kani::stub(crate::core_alloc::alloc::alloc, alloc_null)]
        #[kani::stub(crate::core_alloc::alloc::dealloc, dealloc_count)]
        pub fn $name() {
            f1_step::<$m, $total, false>();
        }
    };
    ($name:ident, $m:expr, $total:expr, $unwind:expr, cut) => {
        #[kani::proof]
        #[kani::unwind($unwind)]
        #[kani::stub(crate::core_alloc::alloc::alloc, alloc_cut)]
        #[kani::stub(crate::core_alloc::alloc::dealloc, dealloc_count)]
        pub fn $name() {
            f1_step::<$m, $total, true>();
        }
    };
}

// END = 1 KiB (TOTAL = END + 48)
f1!(f1_alloc_m1_1k, 1, 1072, 6, null);
f1!(f1_alloc_m2_1k, 2, 1072, 6, null);
f1!(f1_alloc_m4_1k, 4, 1072, 6, null);
f1!(f1_alloc_m8_1k, 8, 1072, 6, null);
f1!(f1_alloc_m16_1k, 16, 1072, 6, null);
f1!(f1_fast_m1_1k, 1, 1072, 3, cut);
f1!(f1_fast_m2_1k, 2, 1072, 3, cut);
f1!(f1_fast_m4_1k, 4, 1072, 3, cut);
f1!(f1_fast_m8_1k, 8, 1072, 3, cut);
f1!(f1_fast_m16_1k, 16, 1072, 3, cut);
// END = 16 KiB
f1!(f1_fast_m1_16k, 1, 16432, 3, cut);
f1!(f1_fast_m2_16k, 2, 16432, 3, cut);
f1!(f1_fast_m4_16k, 4, 16432, 3, cut);
f1!(f1_fast_m8_16k, 8, 16432, 3, cut);
f1!(f1_fast_m16_16k, 16, 16432, 3, cut);
// END = 68 KiB (thorough): chunk sizes beyond a page-rounding step, every base residue mod 4096 many times over
f1!(f1_fast_m1_68k, 1, 69680, 3, cut);
f1!(f1_fast_m16_68k, 16, 69680, 3, cut);
// A-null at 16 KiB (thorough): more halving attempts before the minimum chunk size is reached
f1!(f1_alloc_m1_16k, 1, 16432, 10, null);
f1!(f1_alloc_m16_16k, 16, 16432, 10, null);
