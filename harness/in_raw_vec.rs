// F5 (raw_vec part) — RawVec::amortized_new_size at full width (C18 lemma 4, C19).
// Included as a child module of collections::raw_vec (private items).
#[cfg(not(test))]
macro_rules! vassert {
    ($cond:expr, $msg:literal) => {
        kani::cover!(!($cond), $msg)
    };
}
#[cfg(test)]
macro_rules! vassert {
    ($cond:expr, $msg:literal) => {
        assert!($cond, $msg)
    };
}

#[kani::proof]
pub fn f5_amortized_new_size() {
    let bump = crate::Bump::new();
    let cap: usize = kani::any();
    // invariant of a non-ZST RawVec: the byte size fits isize, hence cap <= isize::MAX
    kani::assume(cap <= isize::MAX as usize);
    let rv: super::RawVec<u8> = unsafe { super::RawVec::from_raw_parts_in(core::ptr::NonNull::<u8>::dangling().as_ptr(), cap, &bump) };
    let used: usize = kani::any();
    let extra: usize = kani::any();
    kani::assume(used <= cap);
    let r = rv.amortized_new_size(used, extra);
    match r {
        Ok(n) => {
            vassert!(used.checked_add(extra).is_some(), "NEVER: [C19] amortized_new_size accepted used + extra > usize::MAX");
            vassert!(n >= used.wrapping_add(extra), "NEVER: [C18,C19] new capacity below used + extra");
            vassert!(n >= 2 * cap, "NEVER: [C18] new capacity below twice the old capacity (growth not geometric)");
            kani::cover!(n == 2 * cap && cap > 0, "REACH: doubling wins");
            kani::cover!(n > 2 * cap, "REACH: required capacity wins");
        }
        Err(_) => {
            vassert!(used.checked_add(extra).is_none(), "NEVER: [C19] amortized_new_size refused a representable capacity");
            kani::cover!(true, "REACH: overflow refused");
        }
    }
    core::mem::forget(rv);
}
