// F6 — lifecycle (release side): reset / drop over a hand-made chunk list whose
// blocks are registered in A-pool's ledger exactly as A-pool would have handed
// them out (DESIGN §6 C03/C06/C08).  K = number of chunks is concrete per harness.
use super::common::*;
use crate::{Bump, ChunkFooter, FOOTER_SIZE};
use core::alloc::Layout;
use core::cell::Cell;
use core::ptr::NonNull;

// usable sizes the real growth sequence produces (448, 960, 1984)
pub const USABLE: [usize; 3] = [448, 960, 1984];

// Backing objects of the hand-made chunks (separate from A-pool's slots, which only
// serve blocks that A-pool itself hands out): chunk i sits at displacement 16*i.
#[repr(C, align(16))]
pub struct Big<const N: usize>(pub [u8; N]);
pub static mut BIG0: Big<512> = Big([0; 512]);
pub static mut BIG1: Big<1040> = Big([0; 1040]);
pub static mut BIG2: Big<2080> = Big([0; 2080]);

pub unsafe fn big_base(i: usize) -> *mut u8 {
    if i == 0 {
        core::ptr::addr_of_mut!(BIG0) as *mut u8
    } else if i == 1 {
        core::ptr::addr_of_mut!(BIG1) as *mut u8
    } else {
        core::ptr::addr_of_mut!(BIG2) as *mut u8
    }
}

pub unsafe fn build_list<const M: usize, const K: usize>() -> NonNull<ChunkFooter> {
    build_list_at::<M, K>(usize::MAX)
}

/// `cur_off`: finger offset of the CURRENT chunk (usize::MAX = symbolic).
pub static mut CHUNK_ALIGN_OVERRIDE: usize = 16;

pub unsafe fn build_list_at<const M: usize, const K: usize>(cur_off: usize) -> NonNull<ChunkFooter> {
    let mut prev = empty_footer();
    let mut i = 0;
    while i < K {
        let disp = 16 * i;
        let base = big_base(i).add(disp);
        let usable = USABLE[i];
        let off: usize = if i + 1 == K && cur_off != usize::MAX { cur_off } else { kani::any() };
        kani::assume(off <= usable && off & (M - 1) == 0);
        // chunk alignment: 16, or the override for the over-aligned instance (the block then sits at
        // the start of its backing object, whose base CBMC aligns to 2^48)
        let ca = if CHUNK_ALIGN_OVERRIDE > 16 && i + 1 == K { CHUNK_ALIGN_OVERRIDE } else { 16 };
        let base = if ca > 16 { big_base(i) } else { base };
        let c = place_chunk::<M>(base, usable, 0, off, ca, prev, true);
        pool_register(base, usable + FOOTER_SIZE, ca);
        prev = NonNull::new_unchecked(c.footer);
        i += 1;
    }
    prev
}

pub fn f6_life<const M: usize, const K: usize, const CA: usize>() {
    unsafe {
        pool_reset(0);
        DISPLACE = 0;
        CHUNK_ALIGN_OVERRIDE = CA;
        let cur = build_list::<M, K>();
        let limit: Option<usize> = kani::any();
        let mut bump = Bump::<M> {
            current_chunk_footer: Cell::new(cur),
            allocation_limit: Cell::new(limit),
        };
        let nrec0 = NREC;
        // C08 on the hand-made state (sanity of the builder = RI clause 3/4)
        vassert!(bump.allocated_bytes_including_metadata() == ledger_live_bytes(), "NEVER: [C08] builder: accounting != ledger");

        let choice: u8 = kani::any();
        kani::assume(choice <= 3);
        if choice >= 1 {
            let cur_before = bump.current_chunk_footer.get();
            bump.reset();
            // ---- C03: reset frees all but the current chunk, exactly once, nothing foreign
            vassert!(!FOREIGN_FREE, "NEVER: [C03] reset freed a block the arena never obtained (e.g. the static sentinel)");
            vassert!(!DOUBLE_FREE, "NEVER: [C03] reset freed a block twice");
            vassert!(!LAYOUT_MISMATCH, "NEVER: [C03] reset freed a block with a layout other than the one it was requested with");
            if K == 0 {
                vassert!(NFREE == 0 && NREQ == 0, "NEVER: [C06] reset of a chunk-less arena touched the global allocator");
                vassert!(bump.current_chunk_footer.get() == empty_footer(), "NEVER: [C06] reset of a chunk-less arena changed it");
                vassert!(bump.chunk_capacity() == 0 && bump.allocated_bytes() == 0, "NEVER: [C06,C08] chunk-less arena reports memory after reset");
            } else {
                vassert!(NFREE == K - 1, "NEVER: [C03] reset did not free exactly the chunks other than the current one");
                vassert!(ledger_live_count() == 1, "NEVER: [C06] arena holds more than one block after reset");
                vassert!(LEDGER[K - 1].live, "NEVER: [C03] reset freed the chunk it keeps");
                vassert!(bump.current_chunk_footer.get() == cur_before, "NEVER: [C06] reset kept a different chunk than the current one");
                // ---- C06
                vassert!(bump.chunk_capacity() == USABLE[K - 1], "NEVER: [C06] full usable capacity not available after reset");
                // ---- C08
                vassert!(bump.allocated_bytes_including_metadata() == ledger_live_bytes(), "NEVER: [C08] including_metadata != bytes held after reset");
                vassert!(bump.allocated_bytes() == ledger_live_bytes() - FOOTER_SIZE, "NEVER: [C07,C08] allocated_bytes != bytes held minus per-chunk overhead after reset (the limit is enforced against this figure)");
            }
            vassert!(NREQ == 0, "NEVER: [C06] reset asked the global allocator for memory");
            vassert!(bump.allocation_limit() == limit, "NEVER: [C06] reset changed the allocation limit");
            vassert!(bump.min_align() == M, "NEVER: [C06] reset changed the minimum alignment");
            vassert!(empty_is_pristine(), "NEVER: [C20] shared static sentinel modified");
            {
                let mut n = 0usize;
                let mut total = 0usize;
                for s in bump.iter_allocated_chunks() {
                    n += 1;
                    total += s.len();
                }
                vassert!(n == if K == 0 { 0 } else { 1 }, "NEVER: [C06,C10] chunk iteration after reset does not show exactly the kept chunk");
                vassert!(total == 0, "NEVER: [C06] chunk iteration shows allocated bytes after reset");
            }
            if choice == 2 {
                let nfree = NFREE;
                bump.reset();
                vassert!(NFREE == nfree && NREQ == 0, "NEVER: [C06] second reset touched the global allocator");
                vassert!(bump.chunk_capacity() == if K == 0 { 0 } else { USABLE[K - 1] }, "NEVER: [C06] second reset changed the capacity");
                vassert!(K == 0 || bump.allocated_bytes() == ledger_live_bytes() - FOOTER_SIZE, "NEVER: [C08] accounting drifts on repeated reset");
            }
            if choice == 3 && K > 0 {
                // the full usable capacity can be handed out again without the global allocator
                let size: usize = kani::any();
                let cap = bump.chunk_capacity();
                kani::assume(size <= cap && size & (M - 1) == 0);
                let align = any_pow2(0, 4);
                kani::assume(align <= M);
                FORBID_ALLOC = true;
                let r = bump.try_alloc_layout(Layout::from_size_align(size, align).unwrap());
                FORBID_ALLOC = false;
                vassert!(r.is_ok(), "NEVER: [C06,C18] request within the recycled capacity refused");
                vassert!(NREQ == 0, "NEVER: [C06] request within the recycled capacity went to the global allocator");
                kani::cover!(size == cap, "REACH: whole capacity handed out again");
            }
        }
        let live_before_drop = ledger_live_count();
        let nfree_before_drop = NFREE;
        drop(bump);
        // ---- C03: drop gives everything back exactly once
        vassert!(!FOREIGN_FREE, "NEVER: [C03] drop freed a block the arena never obtained (e.g. the static sentinel)");
        vassert!(!DOUBLE_FREE, "NEVER: [C03] a block was freed twice");
        vassert!(!LAYOUT_MISMATCH, "NEVER: [C03] a block was freed with a layout other than the one it was requested with");
        vassert!(ledger_live_count() == 0, "NEVER: [C03] arena dropped but still holds memory (leak)");
        vassert!(NFREE == nfree_before_drop + live_before_drop, "NEVER: [C03] number of frees != number of blocks held");
        vassert!(NFREE == nrec0, "NEVER: [C03] blocks obtained != blocks returned over the arena's life");
        vassert!(NREQ == 0, "NEVER: [C03] drop/reset asked the global allocator for memory");
        vassert!(empty_is_pristine(), "NEVER: [C20] shared static sentinel modified");
        kani::cover!(choice == 0, "REACH: drop only");
        kani::cover!(choice == 1, "REACH: reset, drop");
        kani::cover!(choice == 2, "REACH: reset, reset, drop");
        kani::cover!(choice == 3, "REACH: reset, alloc, drop");
    }
}

macro_rules! f6 {
    ($name:ident, $m:expr, $k:expr) => {
        #[kani::proof]
        #[kani::unwind(5)]
        #[kani::stub(crate::core_alloc::alloc::alloc, alloc_pool)]
        #[kani::stub(crate::core_alloc::alloc::dealloc, dealloc_pool)]
        pub fn $name() {
            f6_life::<$m, $k, 16>();
        }
    };
}
f6!(f6_life_m1_k0, 1, 0);
f6!(f6_life_m1_k1, 1, 1);
f6!(f6_life_m1_k2, 1, 2);
f6!(f6_life_m1_k3, 1, 3);
f6!(f6_life_m16_k0, 16, 0);
f6!(f6_life_m16_k1, 16, 1);
f6!(f6_life_m16_k2, 16, 2);
f6!(f6_life_m16_k3, 16, 3);
f6!(f6_life_m8_k2, 8, 2);
f6!(f6_life_m8_k3, 8, 3);
f6!(f6_life_m4_k3, 4, 3);
f6!(f6_life_m2_k3, 2, 3);

// the current chunk was acquired for an over-aligned request (chunk alignment 128 / 256)
#[kani::proof]
#[kani::unwind(5)]
#[kani::stub(crate::core_alloc::alloc::alloc, alloc_pool)]
#[kani::stub(crate::core_alloc::alloc::dealloc, dealloc_pool)]
pub fn f6_life_m1_k1_a128() {
    f6_life::<1, 1, 128>();
}
#[kani::proof]
#[kani::unwind(5)]
#[kani::stub(crate::core_alloc::alloc::alloc, alloc_pool)]
#[kani::stub(crate::core_alloc::alloc::dealloc, dealloc_pool)]
pub fn f6_life_m8_k2_a256() {
    f6_life::<8, 2, 256>();
}
