// F2 — step-dealloc / shrink / grow through the public
// `allocator_api2::alloc::Allocator for &Bump<M>` (DESIGN §6 C01/C02/C04/C12).
// Placement variant: any sizes; ptr::copy/copy_nonoverlapping replaced by
// range-recording stubs (copy_nonoverlapping asserts non-overlap).
use super::common::*;
use crate::{Bump, ChunkFooter, FOOTER_SIZE};
use allocator_api2::alloc::Allocator;
use core::alloc::Layout;
use core::ptr::NonNull;

pub const OP_DEALLOC: u8 = 0;
pub const OP_SHRINK: u8 = 1;
pub const OP_GROW: u8 = 2;

pub fn f2_step<const M: usize, const TOTAL: usize, const OP: u8, const CUT: bool>() {
    let mut back = Backing::<TOTAL>([0u8; TOTAL]);
    let end = TOTAL - FOOTER_SIZE;
    unsafe {
        NLOG = 0;
        NDEALLOC = 0;
        COPY_CALLS = 0;
        let c = sym_chunk::<M>(back.0.as_mut_ptr(), end, empty_footer(), false);
        let limit: Option<usize> = if CUT { None } else { kani::any() };
        let bump = mk_bump::<M>(c.footer, limit);
        let data = c.data as usize;
        let ptr_old = c.ptr0 as usize;
        let foot = c.footer as usize;
        let live = foot - ptr_old;

        // The operated block Bk = [s, s + n_old): any live block of the arena.
        let s_off: usize = kani::any();
        kani::assume(s_off <= live);
        let n_old: usize = kani::any();
        kani::assume(n_old <= live - s_off);
        let a_old = any_pow2(0, 12);
        let s = ptr_old + s_off;
        kani::assume(s & (a_old - 1) == 0 && s & (M - 1) == 0);
        let old_layout = Layout::from_size_align(n_old, a_old).unwrap();
        let is_last = s == ptr_old;

        // Representative other live block Q = [q, q + qn), qn > 0, M-aligned start,
        // inside the allocated region, disjoint from Bk; if Bk sits at the finger it is
        // the lowest live block, so Q is above it.
        let q_off: usize = kani::any();
        let qn: usize = kani::any();
        kani::assume(qn > 0 && q_off <= live && qn <= live - q_off);
        let q = ptr_old + q_off;
        kani::assume(q & (M - 1) == 0);
        kani::assume(q + qn <= s || s + n_old <= q);
        if is_last {
            kani::assume(q >= s + n_old);
        }

        let s0 = snap(c.footer);
        let sp = NonNull::new_unchecked(c.ptr0.add(s_off));
        let a: &Bump<M> = &bump;

        let mut res: Option<(usize, usize, usize, usize)> = None; // (p, len, n_new, a_new)
        let mut failed = false;
        if OP == OP_DEALLOC {
            <&Bump<M> as Allocator>::deallocate(&a, sp, old_layout);
        } else {
            let n_new: usize = kani::any();
            let a_new = any_pow2(0, 12);
            if OP == OP_SHRINK {
                kani::assume(n_new <= n_old);
            } else {
                kani::assume(n_new >= n_old);
            }
            let new_layout = match Layout::from_size_align(n_new, a_new) {
                Ok(l) => l,
                Err(_) => {
                    kani::assume(false);
                    unreachable!()
                }
            };
            let r = if OP == OP_SHRINK {
                <&Bump<M> as Allocator>::shrink(&a, sp, old_layout, new_layout)
            } else {
                <&Bump<M> as Allocator>::grow(&a, sp, old_layout, new_layout)
            };
            match r {
                Ok(nn) => {
                    let p = nn.as_ptr() as *mut u8 as usize;
                    res = Some((p, nn.len(), n_new, a_new));
                }
                Err(_) => failed = true,
            }
        }

        let s1 = snap(c.footer);
        let ptr_new = c.cur_ptr() as usize;
        vassert!(s0 == s1, "NEVER: [C01,C08,C12] footer fields other than the finger changed");
        vassert!(NDEALLOC == 0, "NEVER: [C03] a &self operation gave memory back");
        vassert!(empty_is_pristine(), "NEVER: [C20] shared static sentinel modified");
        // RI: finger inside the chunk, M-aligned
        vassert!(ptr_new >= data && ptr_new <= foot, "NEVER: [C01] finger left the chunk");
        vassert!(ptr_new & (M - 1) == 0, "NEVER: [C04] finger lost the minimum alignment");
        // the representative other live block is still in the allocated region
        vassert!(ptr_new <= q, "NEVER: [C01,C12] finger raised past another live block (it would be handed out again)");

        if OP == OP_DEALLOC {
            vassert!(ptr_new >= ptr_old, "NEVER: [C12] deallocate lowered the finger");
            if !is_last {
                vassert!(ptr_new == ptr_old, "NEVER: [C12] deallocating a non-last block changed the arena");
            }
            vassert!(COPY_CALLS == 0, "NEVER: [C02] deallocate copied memory");
            kani::cover!(is_last && ptr_new > ptr_old, "INFO: [dealloc] last block reclaimed");
            kani::cover!(M == 1 || (is_last && n_old > 0 && ptr_new > s + n_old), "INFO: [dealloc] reclaim rounded up to MIN_ALIGN past the block end");
            kani::cover!(!is_last, "REACH: [dealloc] non-last block");
        } else if failed {
            vassert!(ptr_new == ptr_old, "NEVER: [C09,C12] finger moved although the operation failed");
            vassert!(COPY_CALLS == 0, "NEVER: [C12] memory copied although the operation failed");
            kani::cover!(true, "REACH: [fail] operation failed");
        } else if let Some((p, len, n_new, a_new)) = res {
            vassert!(p != 0, "NEVER: [C01] null pointer returned");
            vassert!(len >= n_new, "NEVER: [C12] returned slice shorter than requested");
            vassert!(p & (a_new - 1) == 0, "NEVER: [C04,C12] new alignment not honoured");
            vassert!(p & (M - 1) == 0, "NEVER: [C04] minimum alignment not honoured");
            // the new block lies in (former free region) ∪ Bk, inside the chunk, in the allocated region
            vassert!(p >= data && p + len <= foot, "NEVER: [C01] new block outside the chunk / over the footer");
            vassert!(ptr_new <= p, "NEVER: [C01] new block below the finger (would be handed out again)");
            vassert!(p + len <= q || q + qn <= p, "NEVER: [C01,C12] new block overlaps another live block");
            if p < ptr_old {
                // uses former free space: must end at or below the old finger, or be the in-place extension of Bk
                vassert!(p + len <= ptr_old || (is_last && p + len <= s + n_old),
                        "NEVER: [C01,C12] new block reaches past the former free region into memory it does not own");
            } else {
                vassert!(p >= s && p + len <= s + n_old || (n_new == 0), "NEVER: [C01,C12] new block outside the old block");
            }
            // contents: the first min(old,new) bytes are where the caller expects them
            let keep = if n_old < n_new { n_old } else { n_new };
            if p != s && keep > 0 {
                vassert!(COPY_CALLS == 1, "NEVER: [C02,C12] block moved without exactly one copy");
                vassert!(COPY_SRC == s && COPY_DST == p, "NEVER: [C02,C12] copy does not go from the old block to the new block");
                vassert!(COPY_LEN >= keep, "NEVER: [C02,C12] fewer than min(old,new) bytes copied");
                vassert!(COPY_LEN <= n_old, "NEVER: [C02] copy reads past the old block");
                vassert!(COPY_LEN <= len, "NEVER: [C02,C12] copy writes past the new block");
            }
            if p == s {
                vassert!(COPY_CALLS == 0 || COPY_LEN == 0 || (COPY_SRC == s && COPY_DST == s), "NEVER: [C02] block stayed but memory was copied elsewhere");
            }
            kani::cover!(p == s, "REACH: [realloc] returned in place");
            kani::cover!(p != s && p < ptr_old, "INFO: [realloc] moved into former free space");
            kani::cover!(OP != OP_SHRINK || (p > s), "INFO: [shrink] shrink moved the block up (reclaim)");
            kani::cover!(OP != OP_SHRINK || (a_new > a_old && p != s), "INFO: [shrink] shrink to a stricter alignment reallocated");
            kani::cover!(OP != OP_GROW || (is_last && p < s && p + len > s), "INFO: [grow] grow extended in place (overlapping move)");
            kani::cover!(OP != OP_GROW || (!is_last && p != s), "INFO: [grow] grow of a non-last block reallocated");
            kani::cover!(OP != OP_GROW || (a_new > a_old), "REACH: [grow] grow to a stricter alignment");
        }
        kani::cover!(true, "REACH: end of harness");
    }
}

macro_rules! f2 {
    ($name:ident, $m:expr, $total:expr, $op:expr, cut) => {
        #[kani::proof]
        #[kani::unwind(3)]
        #[kani::stub(crate::core_alloc::alloc::alloc, alloc_cut)]
        #[kani::stub(crate::core_alloc::alloc::dealloc, dealloc_count)]
        #[kani::stub(core::ptr::copy_nonoverlapping, cno_range_only)]
        #[kani::stub(core::ptr::copy, copy_range_only)]
        pub fn $name() {
            f2_step::<$m, $total, $op, true>();
        }
    };
    ($name:ident, $m:expr, $total:expr, $op:expr, null) => {
        #[kani::proof]
        #[kani::unwind(6)]
        #[kani::stub(crate::core_alloc::alloc::alloc, alloc_null)]
        #[kani::stub(crate::core_alloc::alloc::dealloc, dealloc_count)]
        #[kani::stub(core::ptr::copy_nonoverlapping, cno_range_only)]
        #[kani::stub(core::ptr::copy, copy_range_only)]
        pub fn $name() {
            f2_step::<$m, $total, $op, false>();
        }
    };
}

f2!(f2_dealloc_m1_1k, 1, 1072, OP_DEALLOC, cut);
f2!(f2_dealloc_m2_1k, 2, 1072, OP_DEALLOC, cut);
f2!(f2_dealloc_m4_1k, 4, 1072, OP_DEALLOC, cut);
f2!(f2_dealloc_m8_1k, 8, 1072, OP_DEALLOC, cut);
f2!(f2_dealloc_m16_1k, 16, 1072, OP_DEALLOC, cut);
f2!(f2_shrink_m1_1k, 1, 1072, OP_SHRINK, cut);
f2!(f2_shrink_m2_1k, 2, 1072, OP_SHRINK, cut);
f2!(f2_shrink_m4_1k, 4, 1072, OP_SHRINK, cut);
f2!(f2_shrink_m8_1k, 8, 1072, OP_SHRINK, cut);
f2!(f2_shrink_m16_1k, 16, 1072, OP_SHRINK, cut);
f2!(f2_grow_m1_1k, 1, 1072, OP_GROW, cut);
f2!(f2_grow_m2_1k, 2, 1072, OP_GROW, cut);
f2!(f2_grow_m4_1k, 4, 1072, OP_GROW, cut);
f2!(f2_grow_m8_1k, 8, 1072, OP_GROW, cut);
f2!(f2_grow_m16_1k, 16, 1072, OP_GROW, cut);
// failure side (global allocator refuses): the original block and the arena are untouched
f2!(f2_shrink_null_m1_1k, 1, 1072, OP_SHRINK, null);
f2!(f2_grow_null_m1_1k, 1, 1072, OP_GROW, null);
f2!(f2_grow_null_m16_1k, 16, 1072, OP_GROW, null);
// END = 16 KiB (thorough)
f2!(f2_dealloc_m1_16k, 1, 16432, OP_DEALLOC, cut);
f2!(f2_shrink_m1_16k, 1, 16432, OP_SHRINK, cut);
f2!(f2_grow_m1_16k, 1, 16432, OP_GROW, cut);
f2!(f2_shrink_m16_16k, 16, 16432, OP_SHRINK, cut);
f2!(f2_grow_m16_16k, 16, 16432, OP_GROW, cut);
