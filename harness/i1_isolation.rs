// I1 — isolation frame (sequential half of C20): one operation on arena A leaves every
// observable of a second arena B bit-identical and performs no store into the shared
// static sentinel (monitor on Cell::set + value comparison).  DESIGN §6 C20.
use super::common::*;
use crate::{Bump, ChunkFooter, FOOTER_SIZE};
use core::alloc::Layout;
use core::cell::Cell;
use core::mem::ManuallyDrop;

#[derive(Clone, Copy, PartialEq, Eq)]
struct Obs {
    cap: usize,
    ab: usize,
    abm: usize,
    limit: Option<usize>,
    footer: usize,
    finger: usize,
    snap: FooterSnap,
    probe: u8,
}

unsafe fn observe<const M: usize>(b: &Bump<M>, probe: *const u8) -> Obs {
    let f = b.current_chunk_footer.get();
    Obs {
        cap: b.chunk_capacity(),
        ab: b.allocated_bytes(),
        abm: b.allocated_bytes_including_metadata(),
        limit: b.allocation_limit(),
        footer: f.as_ptr() as usize,
        finger: f.as_ref().ptr.get().as_ptr() as usize,
        snap: snap(f.as_ptr()),
        probe: *probe,
    }
}

pub fn i1_frame<const M: usize, const A_FRESH: bool>() {
    let mut back_a = Backing::<1072>([0u8; 1072]);
    let mut back_b = Backing::<304>([0u8; 304]);
    unsafe {
        SENTINEL_STORES = 0;
        NDEALLOC = 0;
        FORBID_ALLOC = false;
        // bystander B: chunk-less or one chunk with any finger, any limit
        let b_fresh: bool = kani::any();
        let pv: u8 = kani::any();
        back_b.0[255] = pv;
        let cb = sym_chunk::<M>(back_b.0.as_mut_ptr(), 256, empty_footer(), true);
        let b = ManuallyDrop::new(Bump::<M> {
            current_chunk_footer: Cell::new(if b_fresh { empty_footer() } else { core::ptr::NonNull::new_unchecked(cb.footer) }),
            allocation_limit: Cell::new(kani::any()),
        });
        let probe = back_b.0.as_ptr().add(255);
        let before = observe::<M>(&b, probe);

        // A and one operation on it
        let ca = sym_chunk::<M>(back_a.0.as_mut_ptr(), 1024, empty_footer(), true);
        let mut a = ManuallyDrop::new(Bump::<M> {
            current_chunk_footer: Cell::new(if A_FRESH { empty_footer() } else { core::ptr::NonNull::new_unchecked(ca.footer) }),
            // (a chunk-less A with a small limit would run the small-limit bypass loop; the limit is
            // irrelevant to the frame claim, so it is left unset there)
            allocation_limit: Cell::new(if A_FRESH { None } else { kani::any() }),
        });
        let op: u8 = kani::any();
        kani::assume(op <= 4);
        let mut zst_on_fresh = false;
        match op {
            0 => {
                let l = any_layout(12);
                let r = a.try_alloc_layout(l);
                zst_on_fresh = A_FRESH && r.is_ok();
                kani::cover!(r.is_ok(), "REACH: allocation on A succeeded");
            }
            1 => {
                a.set_allocation_limit(kani::any());
            }
            2 => {
                let mut n = 0;
                for s in a.iter_allocated_chunks() {
                    n += s.len();
                }
                kani::cover!(A_FRESH || n > 0, "REACH: iterated A's allocated bytes");
            }
            3 => {
                a.reset();
            }
            _ => {
                ManuallyDrop::drop(&mut a);
                vassert!(NDEALLOC == if A_FRESH { 0 } else { 1 }, "NEVER: [C03] drop freed the wrong number of chunks");
            }
        }
        let after = observe::<M>(&b, probe);
        vassert!(before == after, "NEVER: [C20] an operation on one arena changed an observable of another arena");
        vassert!(empty_is_pristine(), "NEVER: [C20] shared static sentinel modified");
        kani::cover!(op == 3, "REACH: reset of A");
        kani::cover!(op == 4, "REACH: drop of A");
        kani::cover!(b_fresh, "REACH: bystander is chunk-less (shares the sentinel)");
        kani::cover!(!b_fresh, "REACH: bystander holds a chunk");
        // last (a failure here ends the path): no store at all into the shared static
        vassert!(SENTINEL_STORES == 0, "NEVER: [C20] [monitor] store into the shared static sentinel (data race between threads owning distinct chunk-less arenas)");
    }
}

macro_rules! i1 {
    ($name:ident, $m:expr, $fresh:expr) => {
        #[kani::proof]
        #[kani::unwind(4)]
        #[kani::stub(crate::core_alloc::alloc::alloc, alloc_cut)]
        #[kani::stub(crate::core_alloc::alloc::dealloc, dealloc_count)]
        #[kani::stub(core::cell::Cell::set, cell_set_monitor)]
        pub fn $name() {
            i1_frame::<$m, $fresh>();
        }
    };
}
i1!(i1_frame_chunk_m1, 1, false);
i1!(i1_frame_chunk_m8, 8, false);
i1!(i1_frame_chunk_m16, 16, false);
i1!(i1_frame_fresh_m1, 1, true);
i1!(i1_frame_fresh_m16, 16, true);

/// Decision twin: the chunks arena B asks the global allocator for do not depend on what
/// another arena A experienced before (e.g. refusals): B's request log after A's failed
/// allocation equals B's log alone.  Stand-alone footers (F4 style), A-null.
pub fn i1_decide_twin<const M: usize>() {
    use core::alloc::Layout;
    use core::ptr::NonNull;
    unsafe {
        let usable_b: usize = 8128;
        let mut dummy = [0u8; 16];
        let d = NonNull::new_unchecked(dummy.as_mut_ptr());
        let mk = |usable: usize| ChunkFooter {
            data: d,
            layout: Layout::from_size_align_unchecked(usable + FOOTER_SIZE, 16),
            prev: Cell::new(empty_footer()),
            ptr: Cell::new(d),
            allocated_bytes: usable,
        };
        let fb1 = mk(usable_b);
        let fb2 = mk(usable_b);
        let limit_b: Option<usize> = kani::any();
        let req_b: usize = kani::any();
        kani::assume(req_b >= 1 && req_b <= 4096);
        let lb = Layout::from_size_align(req_b, 8).unwrap();
        // run 1: B alone
        NLOG = 0;
        let b1 = ManuallyDrop::new(Bump::<M> { current_chunk_footer: Cell::new(NonNull::from(&fb1)), allocation_limit: Cell::new(limit_b) });
        let r1 = b1.alloc_layout_slow(lb);
        let n1 = NLOG;
        let log1 = LOG;
        // run 2: A (chunk-less, any small request) is refused first, then B
        NLOG = 0;
        let a = ManuallyDrop::new(Bump::<M> { current_chunk_footer: Cell::new(empty_footer()), allocation_limit: Cell::new(None) });
        let req_a: usize = kani::any();
        kani::assume(req_a >= 1 && req_a <= 2048);
        let ra = a.alloc_layout_slow(Layout::from_size_align(req_a, 1).unwrap());
        vassert!(ra.is_none(), "NEVER: [C09] success although the global allocator refused everything");
        NLOG = 0;
        let b2 = ManuallyDrop::new(Bump::<M> { current_chunk_footer: Cell::new(NonNull::from(&fb2)), allocation_limit: Cell::new(limit_b) });
        let r2 = b2.alloc_layout_slow(lb);
        vassert!(r1.is_none() && r2.is_none(), "NEVER: [C09] success although the global allocator refused everything");
        vassert!(NLOG == n1, "NEVER: [C20] the number of chunks an arena asks for depends on another arena's history");
        let i: usize = kani::any();
        if i < n1 && i < LOGN {
            vassert!(LOG[i].0 == log1[i].0 && LOG[i].1 == log1[i].1, "NEVER: [C20] the chunk sizes an arena asks for depend on another arena's history");
        }
        kani::cover!(n1 >= 2, "REACH: several attempts");
        kani::cover!(limit_b.is_some() && n1 >= 1, "REACH: under a limit");
    }
}
#[kani::proof]
#[kani::unwind(12)]
#[kani::stub(crate::core_alloc::alloc::alloc, alloc_null)]
#[kani::stub(crate::core_alloc::alloc::dealloc, dealloc_count)]
pub fn i1_decide_twin_m1() {
    i1_decide_twin::<1>();
}
#[kani::proof]
#[kani::unwind(12)]
#[kani::stub(crate::core_alloc::alloc::alloc, alloc_null)]
#[kani::stub(crate::core_alloc::alloc::dealloc, dealloc_count)]
pub fn i1_decide_twin_m16() {
    i1_decide_twin::<16>();
}

/// Collections keep to their own arena: appending a vector that lives in arena B to an
/// (unallocated) vector of arena A leaves A's vector in A and B untouched by later pushes.
#[cfg(feature = "collections")]
pub fn i1_vec_append_cross() {
    use crate::collections::Vec as BVec;
    let mut back_a = Backing::<304>([0u8; 304]);
    let mut back_b = Backing::<304>([0u8; 304]);
    unsafe {
        let ca = small_chunk::<1>(back_a.0.as_mut_ptr(), 256, 256);
        let cb = small_chunk::<1>(back_b.0.as_mut_ptr(), 256, 256);
        let a = mk_bump::<1>(ca.footer, None);
        let b = mk_bump::<1>(cb.footer, None);
        let ar: &Bump = &a;
        let br: &Bump = &b;
        let x: [u8; 2] = kani::any();
        let mut va: BVec<u8> = BVec::new_in(ar);
        let mut vb: BVec<u8> = BVec::with_capacity_in(2, br);
        vb.push(x[0]);
        vb.push(x[1]);
        va.append(&mut vb);
        vassert!(va.len() == 2 && va[0] == x[0] && va[1] == x[1] && vb.len() == 0, "NEVER: [C13] append result");
        vassert!(core::ptr::eq(va.bump(), ar) && core::ptr::eq(vb.bump(), br), "NEVER: [C20] a vector changed arenas");
        let pa = va.as_ptr() as usize;
        vassert!(pa >= ca.data as usize && pa + 2 <= ca.footer as usize, "NEVER: [C20] a vector of arena A has its buffer in another arena's memory");
        // (growing the vector afterwards was tried: 6.5 min and out of memory; the arena a vector
        // grows in is the one `bump()` reports, which is checked above)
        kani::cover!(true, "REACH: end of harness");
    }
}
#[cfg(feature = "collections")]
#[kani::proof]
#[kani::unwind(14)]
#[kani::stub(crate::core_alloc::alloc::alloc, alloc_cut)]
#[kani::stub(crate::core_alloc::alloc::dealloc, dealloc_count)]
#[kani::stub(core::ptr::copy_nonoverlapping, cno_loop)]
#[kani::stub(core::ptr::copy, copy_loop)]
pub fn i1_vec_append_cross_h() {
    i1_vec_append_cross();
}
