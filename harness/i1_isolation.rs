// I1 — isolation frame (sequential half of C20): one operation on arena A leaves every
// observable of a second arena B bit-identical and performs no store into the shared
// static sentinel (monitor on Cell::set + value comparison).  DESIGN §6 C20.
use super::common::*;
use crate::{Bump, ChunkFooter, FOOTER_SIZE};
use core::alloc::Layout;
use core::cell::Cell;
use core::mem::ManuallyDrop;

#[derive(Clone, Copy, PartialEq, Eq)]
struct Obs {
    cap: usize,
    ab: usize,
    abm: usize,
    limit: Option<usize>,
    footer: usize,
    finger: usize,
    snap: FooterSnap,
    probe: u8,
}

unsafe fn observe<const M: usize>(b: &Bump<M>, probe: *const u8) -> Obs {
    let f = b.current_chunk_footer.get();
    Obs {
        cap: b.chunk_capacity(),
        ab: b.allocated_bytes(),
        abm: b.allocated_bytes_including_metadata(),
        limit: b.allocation_limit(),
        footer: f.as_ptr() as usize,
        finger: f.as_ref().ptr.get().as_ptr() as usize,
        snap: snap(f.as_ptr()),
        probe: *probe,
    }
}

pub fn i1_frame<const M: usize, const A_FRESH: bool>() {
    let mut back_a = Backing::<1072>([0u8; 1072]);
    let mut back_b = Backing::<304>([0u8; 304]);
    unsafe {
        SENTINEL_STORES = 0;
        NDEALLOC = 0;
        FORBID_ALLOC = false;
        // bystander B: chunk-less or one chunk with any finger, any limit
        let b_fresh: bool = kani::any();
        let pv: u8 = kani::any();
        back_b.0[255] = pv;
        let cb = sym_chunk::<M>(back_b.0.as_mut_ptr(), 256, empty_footer(), true);
        let b = ManuallyDrop::new(Bump::<M> {
            current_chunk_footer: Cell::new(if b_fresh { empty_footer() } else { core::ptr::NonNull::new_unchecked(cb.footer) }),
            allocation_limit: Cell::new(kani::any()),
        });
        let probe = back_b.0.as_ptr().add(255);
        let before = observe::<M>(&b, probe);

        // A and one operation on it
        let ca = sym_chunk::<M>(back_a.0.as_mut_ptr(), 1024, empty_footer(), true);
        let mut a = ManuallyDrop::new(Bump::<M> {
            current_chunk_footer: Cell::new(if A_FRESH { empty_footer() } else { core::ptr::NonNull::new_unchecked(ca.footer) }),
            // (a chunk-less A with a small limit would run the small-limit bypass loop; the limit is
            // irrelevant to the frame claim, so it is left unset there)
            allocation_limit: Cell::new(if A_FRESH { None } else { kani::any() }),
        });
        let op: u8 = kani::any();
        kani::assume(op <= 4);
        let mut zst_on_fresh = false;
        match op {
            0 => {
                let l = any_layout(12);
                let r = a.try_alloc_layout(l);
                zst_on_fresh = A_FRESH && r.is_ok();
                kani::cover!(r.is_ok(), "REACH: allocation on A succeeded");
            }
            1 => {
                a.set_allocation_limit(kani::any());
            }
            2 => {
                let mut n = 0;
                for s in a.iter_allocated_chunks() {
                    n += s.len();
                }
                kani::cover!(A_FRESH || n > 0, "REACH: iterated A's allocated bytes");
            }
            3 => {
                a.reset();
            }
            _ => {
                ManuallyDrop::drop(&mut a);
                assert!(NDEALLOC == if A_FRESH { 0 } else { 1 }, "[C03] drop freed the wrong number of chunks");
            }
        }
        let after = observe::<M>(&b, probe);
        assert!(before == after, "[C20] an operation on one arena changed an observable of another arena");
        assert!(empty_is_pristine(), "[C20] shared static sentinel modified");
        kani::cover!(op == 3, "REACH: reset of A");
        kani::cover!(op == 4, "REACH: drop of A");
        kani::cover!(b_fresh, "REACH: bystander is chunk-less (shares the sentinel)");
        kani::cover!(!b_fresh, "REACH: bystander holds a chunk");
        // last (a failure here ends the path): no store at all into the shared static
        assert!(SENTINEL_STORES == 0, "[C20] [monitor] store into the shared static sentinel (data race between threads owning distinct chunk-less arenas)");
    }
}

macro_rules! i1 {
    ($name:ident, $m:expr, $fresh:expr) => {
        #[kani::proof]
        #[kani::unwind(4)]
        #[kani::stub(crate::core_alloc::alloc::alloc, alloc_cut)]
        #[kani::stub(crate::core_alloc::alloc::dealloc, dealloc_count)]
        #[kani::stub(core::cell::Cell::set, cell_set_monitor)]
        pub fn $name() {
            i1_frame::<$m, $fresh>();
        }
    };
}
i1!(i1_frame_chunk_m1, 1, false);
i1!(i1_frame_chunk_m8, 8, false);
i1!(i1_frame_chunk_m16, 16, false);
i1!(i1_frame_fresh_m1, 1, true);
i1!(i1_frame_fresh_m16, 16, true);
