// V1/V2/V3 — collections::Vec: one operation from a small concrete shape (capacity 4,
// length LEN) with symbolic element values and arguments, against an array reference
// model (DESIGN §6 C13).  ptr::copy / copy_nonoverlapping are byte loops (DESIGN §3.2).
use super::common::*;
use crate::collections::Vec as BVec;
use crate::Bump;

/// Reference model: the obvious array semantics of std::vec::Vec<u8>.
#[derive(Clone, Copy)]
pub struct Model {
    pub a: [u8; 12],
    pub n: usize,
}
impl Model {
    fn push(&mut self, v: u8) {
        self.a[self.n] = v;
        self.n += 1;
    }
    fn insert(&mut self, i: usize, v: u8) {
        let mut k = self.n;
        while k > i {
            self.a[k] = self.a[k - 1];
            k -= 1;
        }
        self.a[i] = v;
        self.n += 1;
    }
    fn remove(&mut self, i: usize) -> u8 {
        let r = self.a[i];
        let mut k = i;
        while k + 1 < self.n {
            self.a[k] = self.a[k + 1];
            k += 1;
        }
        self.n -= 1;
        r
    }
    fn swap_remove(&mut self, i: usize) -> u8 {
        let r = self.a[i];
        self.a[i] = self.a[self.n - 1];
        self.n -= 1;
        r
    }
}

pub const OP_PUSH: u8 = 0;
pub const OP_POP: u8 = 1;
pub const OP_INSERT: u8 = 2;
pub const OP_REMOVE: u8 = 3;
pub const OP_SWAP_REMOVE: u8 = 4;
pub const OP_TRUNCATE: u8 = 5;
pub const OP_CLEAR: u8 = 6;
pub const OP_RESIZE: u8 = 7;
pub const OP_EXTEND: u8 = 8;
pub const OP_EXTEND_COPY: u8 = 9;
pub const OP_EXTEND_SLICES: u8 = 10;
pub const OP_APPEND: u8 = 11;
pub const OP_SPLIT_OFF: u8 = 12;
pub const OP_DRAIN: u8 = 13;
pub const OP_RETAIN: u8 = 14;
pub const OP_DEDUP: u8 = 15;
pub const OP_DEDUP_KEY: u8 = 16;
pub const OP_RESERVE: u8 = 17;
pub const OP_SHRINK: u8 = 18;
pub const OP_CLONE: u8 = 19;
pub const OP_INTO_ITER: u8 = 20;
pub const OP_INTO_SLICE: u8 = 21;
pub const OP_DEDUP_BY: u8 = 22;
pub const OP_DRAIN_BOUNDS: u8 = 23;

unsafe fn setup<'a, const LEN: usize>(bump: &'a Bump, e: &[u8; 4]) -> (BVec<'a, u8>, Model) {
    let mut v = BVec::with_capacity_in(4, bump);
    let mut m = Model { a: [0; 12], n: 0 };
    let mut i = 0;
    while i < LEN {
        v.push(e[i]);
        m.push(e[i]);
        i += 1;
    }
    (v, m)
}

fn same(v: &BVec<u8>, m: &Model) {
    vassert!(v.len() == m.n, "NEVER: [C13] length differs from the reference model");
    vassert!(v.capacity() >= v.len(), "NEVER: [C13] capacity below length");
    let k: usize = kani::any();
    if k < m.n {
        vassert!(v[k] == m.a[k], "NEVER: [C13] element differs from the reference model");
    }
}

/// In-range single operation: result, contents, length equal the model.
pub fn v1<const LEN: usize, const OP: u8>() {
    let mut back = Backing::<304>([0u8; 304]);
    unsafe {
        let c = small_chunk::<1>(back.0.as_mut_ptr(), 256, 200);
        // a canary block allocated before the vector (neighbour, V3)
        let bump = mk_bump::<1>(c.footer, None);
        let canary_v: u32 = kani::any();
        let canary = bump.alloc(canary_v);
        let e: [u8; 4] = kani::any();
        let (mut v, mut m) = setup::<LEN>(&bump, &e);
        let x: u8 = kani::any();
        let i: usize = kani::any();
        let j: usize = kani::any();
        match OP {
            OP_PUSH => {
                v.push(x);
                m.push(x);
            }
            OP_POP => {
                let r = v.pop();
                let want = if m.n == 0 {
                    None
                } else {
                    m.n -= 1;
                    Some(m.a[m.n])
                };
                vassert!(r == want, "NEVER: [C13] pop returned a different value than the reference model");
            }
            OP_INSERT => {
                kani::assume(i <= LEN);
                v.insert(i, x);
                m.insert(i, x);
            }
            OP_REMOVE => {
                kani::assume(i < LEN);
                let r = v.remove(i);
                vassert!(r == m.remove(i), "NEVER: [C13] remove returned a different value than the reference model");
            }
            OP_SWAP_REMOVE => {
                kani::assume(i < LEN);
                let r = v.swap_remove(i);
                vassert!(r == m.swap_remove(i), "NEVER: [C13] swap_remove returned a different value than the reference model");
            }
            OP_TRUNCATE => {
                v.truncate(i);
                if i < m.n {
                    m.n = i;
                }
            }
            OP_CLEAR => {
                v.clear();
                m.n = 0;
            }
            OP_RESIZE => {
                kani::assume(i <= 8);
                v.resize(i, x);
                while m.n < i {
                    m.push(x);
                }
                m.n = i;
                vassert!(v.capacity() >= i, "NEVER: [C13] capacity below the new length after resize");
            }
            OP_EXTEND | OP_EXTEND_COPY => {
                let s: [u8; 3] = kani::any();
                kani::assume(i <= 3);
                if OP == OP_EXTEND {
                    v.extend_from_slice(&s[..i]);
                } else {
                    v.extend_from_slice_copy(&s[..i]);
                }
                let mut k = 0;
                while k < i {
                    m.push(s[k]);
                    k += 1;
                }
            }
            OP_EXTEND_SLICES => {
                let s: [u8; 2] = kani::any();
                let t: [u8; 2] = kani::any();
                kani::assume(i <= 2 && j <= 2);
                v.extend_from_slices_copy(&[&s[..i], &t[..j]]);
                let mut k = 0;
                while k < i {
                    m.push(s[k]);
                    k += 1;
                }
                k = 0;
                while k < j {
                    m.push(t[k]);
                    k += 1;
                }
            }
            OP_APPEND => {
                let mut o = BVec::with_capacity_in(2, &bump);
                let s: [u8; 2] = kani::any();
                kani::assume(i <= 2);
                let mut k = 0;
                while k < i {
                    o.push(s[k]);
                    m.push(s[k]);
                    k += 1;
                }
                v.append(&mut o);
                vassert!(o.len() == 0, "NEVER: [C13] append left elements in the source vector");
            }
            OP_SPLIT_OFF => {
                kani::assume(i <= LEN);
                let t = v.split_off(i);
                vassert!(t.len() == LEN - i, "NEVER: [C13] split_off tail has the wrong length");
                let k: usize = kani::any();
                if k < LEN - i {
                    vassert!(t[k] == m.a[i + k], "NEVER: [C13] split_off tail element differs from the reference model");
                }
                m.n = i;
            }
            OP_DRAIN => {
                kani::assume(i <= j && j <= LEN);
                let take: usize = kani::any();
                {
                    let mut d = v.drain(i..j);
                    let mut k = 0;
                    while k < take && k < 4 {
                        let it = d.next();
                        if k < j - i {
                            vassert!(it == Some(m.a[i + k]), "NEVER: [C13] drain yielded a different item than the reference model");
                        } else {
                            vassert!(it.is_none(), "NEVER: [C13] drain yielded more items than the range holds");
                        }
                        k += 1;
                    }
                } // dropped (possibly early)
                let mut k = 0;
                while k < j - i {
                    m.remove(i);
                    k += 1;
                }
            }
            OP_DRAIN_BOUNDS => {
                // explicit (Bound, Bound) range: start EXCLUDED, end INCLUDED  ==  (i+1)..(j+1)
                use core::ops::Bound;
                kani::assume(i < LEN && j < LEN && i <= j);
                {
                    let mut d = v.drain((Bound::Excluded(i), Bound::Included(j)));
                    let first = d.next();
                    if i < j {
                        vassert!(first == Some(m.a[i + 1]), "NEVER: [C13] drain with an excluded start bound yielded the wrong first item");
                    } else {
                        vassert!(first.is_none(), "NEVER: [C13] drain over an empty (excluded..=included) range yielded an item");
                    }
                }
                let mut k = 0;
                while k < j - i {
                    m.remove(i + 1);
                    k += 1;
                }
            }
            OP_RETAIN => {
                let mask: u8 = kani::any();
                v.retain(|b| (mask >> (*b & 7)) & 1 == 1);
                let mut k = 0;
                while k < m.n {
                    if (mask >> (m.a[k] & 7)) & 1 == 1 {
                        k += 1;
                    } else {
                        m.remove(k);
                    }
                }
            }
            OP_DEDUP | OP_DEDUP_KEY => {
                if OP == OP_DEDUP {
                    v.dedup();
                } else {
                    v.dedup_by_key(|b| *b >> 1);
                }
                let mut k = 1;
                while k < m.n {
                    let eq = if OP == OP_DEDUP { m.a[k] == m.a[k - 1] } else { m.a[k] >> 1 == m.a[k - 1] >> 1 };
                    if eq {
                        m.remove(k);
                    } else {
                        k += 1;
                    }
                }
            }
            OP_DEDUP_BY => {
                // asymmetric relation: same_bucket(a, b) is called with a = the later element and
                // b = the earlier (kept) one; a is removed when it returns true (std contract)
                v.dedup_by(|a, b| *a > *b);
                let mut k = 1;
                while k < m.n {
                    if m.a[k] > m.a[k - 1] {
                        m.remove(k);
                    } else {
                        k += 1;
                    }
                }
            }
            OP_RESERVE => {
                // concrete amount (a symbolic amount makes the reallocation size symbolic: out of memory)
                let i: usize = if LEN == 4 { 4 } else { 3 };
                let w: u8 = kani::any();
                match w % 3 {
                    0 => v.reserve(i),
                    1 => v.reserve_exact(i),
                    _ => {
                        if v.try_reserve(i).is_err() {
                            return;
                        }
                    }
                }
                vassert!(v.capacity() >= LEN + i, "NEVER: [C13,C18] capacity below what reserve promised");
                // and that many pushes do not move the buffer
                let p0 = v.as_ptr() as usize;
                let mut k = 0;
                while k < i && k < 3 {
                    v.push(x);
                    m.push(x);
                    k += 1;
                }
                vassert!(v.as_ptr() as usize == p0, "NEVER: [C18] buffer moved although capacity had been reserved");
            }
            OP_SHRINK => {
                v.shrink_to_fit();
                vassert!(v.capacity() >= v.len(), "NEVER: [C13] capacity below length after shrink_to_fit");
            }
            OP_CLONE => {
                let w = v.clone();
                same(&w, &m);
            }
            OP_INTO_ITER => {
                let front: bool = kani::any();
                let mut it = v.into_iter();
                let r = if front { it.next() } else { it.next_back() };
                let want = if LEN == 0 {
                    None
                } else if front {
                    Some(m.a[0])
                } else {
                    Some(m.a[LEN - 1])
                };
                vassert!(r == want, "NEVER: [C13] into_iter yielded a different item than the reference model");
                vassert!(it.len() == if LEN == 0 { 0 } else { LEN - 1 }, "NEVER: [C13] into_iter remaining length");
                vassert!(*canary == canary_v, "NEVER: [C13] neighbour block disturbed");
                kani::cover!(true, "REACH: end of harness (into_iter)");
                return;
            }
            _ => {
                let s = v.into_bump_slice();
                vassert!(s.len() == m.n, "NEVER: [C13] into_bump_slice length");
                let k: usize = kani::any();
                if k < m.n {
                    vassert!(s[k] == m.a[k], "NEVER: [C13] into_bump_slice element differs");
                }
                vassert!(*canary == canary_v, "NEVER: [C13] neighbour block disturbed");
                kani::cover!(true, "REACH: end of harness (into_slice)");
                return;
            }
        }
        same(&v, &m);
        vassert!(*canary == canary_v, "NEVER: [C13] neighbour block disturbed");
        kani::cover!(true, "REACH: end of harness (other)");
    }
}

/// V2 panic-iff: out-of-range index => the call does not return.
pub fn v2<const LEN: usize, const OP: u8>() {
    let mut back = Backing::<304>([0u8; 304]);
    unsafe {
        let c = small_chunk::<1>(back.0.as_mut_ptr(), 256, 200);
        let bump = mk_bump::<1>(c.footer, None);
        let e: [u8; 4] = kani::any();
        let (mut v, _m) = setup::<LEN>(&bump, &e);
        let i: usize = kani::any();
        let j: usize = kani::any();
        match OP {
            OP_INSERT => {
                kani::assume(i > LEN);
                v.insert(i, 0);
            }
            OP_REMOVE => {
                kani::assume(i >= LEN);
                let _ = v.remove(i);
            }
            OP_SWAP_REMOVE => {
                kani::assume(i >= LEN);
                let _ = v.swap_remove(i);
            }
            OP_SPLIT_OFF => {
                kani::assume(i > LEN);
                let _ = v.split_off(i);
            }
            OP_DRAIN => {
                kani::assume(i > j || j > LEN);
                let _ = v.drain(i..j);
            }
            _ => {
                kani::assume(i >= LEN);
                let _ = v[i];
            }
        }
        kani::cover!(true, "NEVER: an index-taking Vec operation returned normally for an out-of-range index (std panics)");
    }
}

/// V3 neighbours: growth of a Vec (realloc path) next to a sibling Vec leaves the sibling intact.
pub fn v3_neighbours_body() {
    let mut back = Backing::<304>([0u8; 304]);
    unsafe {
        let c = small_chunk::<1>(back.0.as_mut_ptr(), 256, 256);
        let bump = mk_bump::<1>(c.footer, None);
        let e: [u8; 4] = kani::any();
        let f: [u8; 4] = kani::any();
        let mut a = BVec::with_capacity_in(2, &bump);
        a.push(e[0]);
        a.push(e[1]);
        let mut b = BVec::with_capacity_in(2, &bump); // b is now the last allocation
        b.push(f[0]);
        b.push(f[1]);
        let which: bool = kani::any();
        if which {
            a.push(e[2]); // a is not last: reallocates elsewhere
            a.push(e[3]);
        } else {
            b.push(f[2]); // b is last: grows in place (overlapping move)
            b.push(f[3]);
        }
        let k: usize = kani::any();
        if k < a.len() {
            vassert!(a[k] == e[k], "NEVER: [C13] vector contents changed when a neighbour (or itself) grew");
        }
        if k < b.len() {
            vassert!(b[k] == f[k], "NEVER: [C13] vector contents changed when a neighbour (or itself) grew");
        }
        let pa = a.as_ptr() as usize;
        let pb = b.as_ptr() as usize;
        vassert!(pa + a.capacity() <= pb || pb + b.capacity() <= pa, "NEVER: [C13,C01] buffers of two live vectors overlap");
        kani::cover!(which && a.len() == 4, "REACH: non-last vector grew");
        kani::cover!(!which && b.len() == 4, "REACH: last vector grew in place");
    }
}

/// ZST elements (capacity usize::MAX path).
pub fn v1_zst_body() {
    let mut back = Backing::<304>([0u8; 304]);
    unsafe {
        let c = small_chunk::<1>(back.0.as_mut_ptr(), 256, 200);
        let bump = mk_bump::<1>(c.footer, None);
        let cap0 = bump.chunk_capacity();
        let mut v: BVec<()> = BVec::new_in(&bump);
        let n: usize = kani::any();
        kani::assume(n <= 3);
        let mut k = 0;
        while k < n {
            v.push(());
            k += 1;
        }
        vassert!(v.len() == n && v.capacity() >= n, "NEVER: [C13] ZST vector length/capacity");
        let p = v.pop();
        vassert!(p.is_some() == (n > 0), "NEVER: [C13] ZST pop");
        v.truncate(1);
        vassert!(v.len() == if n >= 2 { 1 } else { n.saturating_sub(1) }, "NEVER: [C13] ZST truncate");
        let cnt = v.into_iter().count();
        vassert!(cnt == if n >= 2 { 1 } else { n.saturating_sub(1) }, "NEVER: [C13] ZST into_iter count");
        vassert!(bump.chunk_capacity() == cap0, "NEVER: [C13] a vector of zero-sized elements used arena space");
        kani::cover!(n == 3, "REACH: three ZST elements");
    }
}

macro_rules! vh {
    ($name:ident, $unwind:expr, $body:expr) => {
        #[kani::proof]
        #[kani::unwind($unwind)]
        #[kani::stub(crate::core_alloc::alloc::alloc, alloc_cut)]
        #[kani::stub(crate::core_alloc::alloc::dealloc, dealloc_count)]
        #[kani::stub(core::ptr::copy_nonoverlapping, cno_loop)]
        #[kani::stub(core::ptr::copy, copy_loop)]
        pub fn $name() {
            $body
        }
    };
}

vh!(v1_push_l0, 14, v1::<0, OP_PUSH>());
vh!(v1_push_l2, 14, v1::<2, OP_PUSH>());
vh!(v1_push_l4, 14, v1::<4, OP_PUSH>());
vh!(v1_pop_l0, 14, v1::<0, OP_POP>());
vh!(v1_pop_l3, 14, v1::<3, OP_POP>());
vh!(v1_insert_l2, 14, v1::<2, OP_INSERT>());
vh!(v1_insert_l4, 14, v1::<4, OP_INSERT>());
vh!(v1_remove_l3, 14, v1::<3, OP_REMOVE>());
vh!(v1_remove_l4, 14, v1::<4, OP_REMOVE>());
vh!(v1_swap_remove_l3, 14, v1::<3, OP_SWAP_REMOVE>());
vh!(v1_truncate_l3, 14, v1::<3, OP_TRUNCATE>());
vh!(v1_clear_l3, 14, v1::<3, OP_CLEAR>());
vh!(v1_resize_l2, 14, v1::<2, OP_RESIZE>());
vh!(v1_extend_copy_l3, 14, v1::<3, OP_EXTEND_COPY>());
vh!(v1_extend_slices_l2, 14, v1::<2, OP_EXTEND_SLICES>());
vh!(v1_append_l3, 14, v1::<3, OP_APPEND>());
vh!(v1_split_off_l3, 14, v1::<3, OP_SPLIT_OFF>());
vh!(v1_drain_l3, 14, v1::<3, OP_DRAIN>());
vh!(v1_drain_l4, 14, v1::<4, OP_DRAIN>());
vh!(v1_drain_bounds_l4, 14, v1::<4, OP_DRAIN_BOUNDS>());
vh!(v1_retain_l3, 14, v1::<3, OP_RETAIN>());
vh!(v1_dedup_l3, 14, v1::<3, OP_DEDUP>());
vh!(v1_dedup_key_l4, 14, v1::<4, OP_DEDUP_KEY>());
vh!(v1_dedup_by_l3, 14, v1::<3, OP_DEDUP_BY>());
vh!(v1_shrink_l2, 14, v1::<2, OP_SHRINK>());
vh!(v1_into_iter_l3, 14, v1::<3, OP_INTO_ITER>());
vh!(v1_into_iter_l0, 14, v1::<0, OP_INTO_ITER>());
vh!(v1_into_slice_l3, 14, v1::<3, OP_INTO_SLICE>());
vh!(v2_insert_l2, 14, v2::<2, OP_INSERT>());
vh!(v2_remove_l2, 14, v2::<2, OP_REMOVE>());
vh!(v2_swap_remove_l0, 14, v2::<0, OP_SWAP_REMOVE>());
vh!(v2_split_off_l3, 14, v2::<3, OP_SPLIT_OFF>());
vh!(v2_drain_l3, 14, v2::<3, OP_DRAIN>());
vh!(v2_index_l3, 14, v2::<3, 99>());
vh!(v3_neighbours, 14, v3_neighbours_body());

/// C18: a full vector that has to grow at least doubles its capacity, whichever operation
/// triggers the growth (amortised growth => logarithmically many reallocations).
pub fn v4_growth<const OP: u8>() {
    let mut back = Backing::<304>([0u8; 304]);
    unsafe {
        let c = small_chunk::<1>(back.0.as_mut_ptr(), 256, 200);
        let bump = mk_bump::<1>(c.footer, None);
        let e: [u8; 4] = kani::any();
        let (mut v, _m) = setup::<4>(&bump, &e);
        let cap0 = v.capacity();
        let x: u8 = kani::any();
        match OP {
            0 => v.push(x),
            1 => v.insert(2, x),
            2 => v.extend_from_slice_copy(&[x]),
            3 => v.extend_from_slice(&[x]),
            4 => v.extend(core::iter::once(x)),
            5 => v.resize(5, x),
            _ => {
                // reserve(3) on a full vector of 4, then that many pushes must not move the buffer
                v.reserve(3);
                vassert!(v.capacity() >= 7, "NEVER: [C13,C18] capacity below what reserve promised");
                let p0 = v.as_ptr() as usize;
                v.push(x);
                v.push(x);
                v.push(x);
                vassert!(v.as_ptr() as usize == p0, "NEVER: [C18] buffer moved although capacity had been reserved");
                vassert!(v.len() == 7 && v[0] == e[0] && v[3] == e[3] && v[6] == x, "NEVER: [C13] contents after reserve + push");
            }
        }
        vassert!(cap0 == 4, "NEVER: [C13] with_capacity_in(4) did not give capacity 4");
        vassert!(v.capacity() >= 2 * cap0, "NEVER: [C18] a vector that had to grow did not at least double its capacity");
        vassert!(v.capacity() >= v.len(), "NEVER: [C13] capacity below length");
        kani::cover!(true, "REACH: end of harness");
    }
}
vh!(v4_growth_push, 14, v4_growth::<0>());
vh!(v4_growth_insert, 14, v4_growth::<1>());
vh!(v4_growth_extend_copy, 14, v4_growth::<2>());
vh!(v4_growth_extend_slice, 14, v4_growth::<3>());
vh!(v4_growth_extend_iter, 14, v4_growth::<4>());
vh!(v4_growth_resize, 14, v4_growth::<5>());
vh!(v4_growth_reserve, 14, v4_growth::<6>());

/// V5 — splice with CONCRETE shapes (range and replacement length) and symbolic values.
/// (A symbolic range drives Splice/Drain::move_tail/fill through symbolic copies: 40 min timeout.)
pub fn v5_splice<const CASE: u8>() {
    let mut back = Backing::<304>([0u8; 304]);
    unsafe {
        let c = small_chunk::<1>(back.0.as_mut_ptr(), 256, 200);
        let bump = mk_bump::<1>(c.footer, None);
        let e: [u8; 4] = kani::any();
        let r: [u8; 4] = kani::any();
        let mut v = BVec::with_capacity_in(12, &bump);
        v.push(e[0]);
        v.push(e[1]);
        v.push(e[2]);
        v.push(e[3]);
        // expected result as an array + length
        let mut want = [0u8; 12];
        let mut wn = 0usize;
        let mut removed = [0u8; 4];
        let mut rn = 0usize;
        match CASE {
            0 => {
                // middle range, exact-size replacement, longer than the range; removed items collected
                let got: [Option<u8>; 2] = {
                    let mut sp = v.splice(1..2, [r[0], r[1], r[2]]);
                    [sp.next(), sp.next()]
                };
                vassert!(got[0] == Some(e[1]) && got[1].is_none(), "NEVER: [C13] splice yielded the wrong removed items");
                want[..7].copy_from_slice(&[e[0], r[0], r[1], r[2], e[2], e[3], 0]);
                wn = 6;
            }
            1 => {
                // inexact size_hint (filter), more items than the range, non-empty tail
                {
                    let _sp = v.splice(1..2, [r[0], r[1], r[2], r[3]].into_iter().filter(|_| true));
                }
                want[..7].copy_from_slice(&[e[0], r[0], r[1], r[2], r[3], e[2], e[3]]);
                wn = 7;
            }
            2 => {
                // shorter replacement, range up to the end
                {
                    let _sp = v.splice(1.., [r[0]]);
                }
                want[..2].copy_from_slice(&[e[0], r[0]]);
                wn = 2;
            }
            _ => {
                // empty replacement = removal
                {
                    let _sp = v.splice(..2, core::iter::empty());
                }
                want[..2].copy_from_slice(&[e[2], e[3]]);
                wn = 2;
            }
        }
        let _ = (removed, rn);
        vassert!(v.len() == wn, "NEVER: [C13] length after splice differs from std's");
        let k: usize = kani::any();
        if k < wn && k < v.len() {
            vassert!(v[k] == want[k], "NEVER: [C13] contents after splice differ from std's");
        }
        vassert!(v.capacity() >= v.len(), "NEVER: [C13] capacity below length");
        kani::cover!(true, "REACH: end of harness");
    }
}
// (splices with a non-empty tail AND a longer replacement, cases 0 and 1, run past 25 min even with
// concrete shapes: Drain::move_tail + fill over the loop copies; not registered)
vh!(v5_splice_to_end, 16, v5_splice::<2>());
vh!(v5_splice_remove, 16, v5_splice::<3>());


/// V6 — constructors that build a vector from other data: from_iter_in (exact and inexact size
/// hints), the `vec!` macro forms, and drain_filter on u8 elements; concrete lengths, symbolic values.
pub fn v6_misc<const CASE: u8>() {
    let mut back = Backing::<304>([0u8; 304]);
    unsafe {
        let c = small_chunk::<1>(back.0.as_mut_ptr(), 256, 200);
        let bump = mk_bump::<1>(c.footer, None);
        let b: &Bump = &bump;
        let e: [u8; 3] = kani::any();
        let mut want = [0u8; 4];
        let mut wn = 0usize;
        let v: BVec<u8> = match CASE {
            0 => {
                want[..3].copy_from_slice(&e);
                wn = 3;
                BVec::from_iter_in(e, b)
            }
            1 => {
                // inexact size hint (filter): every element with the low bit set
                let mut k = 0;
                while k < 3 {
                    if e[k] & 1 == 1 {
                        want[wn] = e[k];
                        wn += 1;
                    }
                    k += 1;
                }
                BVec::from_iter_in(e.into_iter().filter(|x| x & 1 == 1), b)
            }
            2 => {
                want[..3].copy_from_slice(&e);
                wn = 3;
                crate::vec![in b; e[0], e[1], e[2]]
            }
            3 => {
                want = [e[0]; 4];
                wn = 4;
                crate::vec![in b; e[0]; 4]
            }
            _ => {
                let mut v = crate::vec![in b; e[0], e[1], e[2]];
                let mask: u8 = kani::any();
                let mut got = [0u8; 3];
                let mut gn = 0;
                {
                    let it = v.drain_filter(|x| (mask >> (*x & 7)) & 1 == 1);
                    for x in it {
                        got[gn] = x;
                        gn += 1;
                    }
                }
                let mut k = 0;
                let mut gi = 0;
                while k < 3 {
                    if (mask >> (e[k] & 7)) & 1 == 1 {
                        vassert!(gi < gn && got[gi] == e[k], "NEVER: [C13] drain_filter yielded different items than std");
                        gi += 1;
                    } else {
                        want[wn] = e[k];
                        wn += 1;
                    }
                    k += 1;
                }
                vassert!(gi == gn, "NEVER: [C13] drain_filter yielded more items than std");
                v
            }
        };
        vassert!(v.len() == wn, "NEVER: [C13] length differs from std's");
        vassert!(v.capacity() >= v.len(), "NEVER: [C13] capacity below length");
        let k: usize = kani::any();
        if k < wn && k < v.len() {
            vassert!(v[k] == want[k], "NEVER: [C13] contents differ from std's");
        }
        kani::cover!(true, "REACH: end of harness");
    }
}
vh!(v6_from_iter_exact, 8, v6_misc::<0>());
vh!(v6_from_iter_filter, 8, v6_misc::<1>());
vh!(v6_vec_macro_list, 8, v6_misc::<2>());
vh!(v6_vec_macro_repeat, 8, v6_misc::<3>());
vh!(v6_drain_filter, 8, v6_misc::<4>());
