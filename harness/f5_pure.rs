// F5 — pure size-arithmetic kernels at full 64-bit width (DESIGN §6 C04/C07/C18/C19).
use super::common::*;
use crate::{round_up_to, Bump, NewChunkMemoryDetails, FOOTER_SIZE};
use core::alloc::Layout;

const DEFAULT: usize = crate::DEFAULT_CHUNK_SIZE_WITHOUT_FOOTER;

/// round_up_to(n, 2^k): None exactly on overflow, otherwise the least multiple >= n.
#[kani::proof]
pub fn f5_round_up_to() {
    let n: usize = kani::any();
    let d = any_pow2(0, 63);
    match round_up_to(n, d) {
        Some(x) => {
            vassert!(x >= n, "NEVER: [C19] rounded value below the input (wrapped)");
            vassert!(x & (d - 1) == 0, "NEVER: [C04,C19] not a multiple of the divisor");
            vassert!(x - n < d, "NEVER: [C19] not the least multiple");
            kani::cover!(x == n && n > 0, "REACH: already aligned");
            kani::cover!(x > n, "REACH: rounded up");
        }
        None => {
            vassert!(n > usize::MAX - (d - 1), "NEVER: [C19] None although the rounded value is representable");
            kani::cover!(true, "REACH: overflow refused");
        }
    }
}

/// Largest chunk magnitude the claim covers for the *current* chunk: 2^56 bytes
/// (no machine this crate runs on can hold a larger block; above 2^62 the doubled
/// size plus OVERHEAD overflows in `new_chunk_memory_details`, see DESIGN §6 C19).
pub const MAX_HELD: usize = 1 << 56;

pub fn details<const M: usize>() {
    let layout = any_layout(12);
    let hint: Option<usize> = kani::any();
    if let Some(h) = hint {
        // callers pass 2 * (current usable size) halved k times, or the request size
        kani::assume(h <= 2 * MAX_HELD || h <= layout.size());
    }
    let r = Bump::<M>::new_chunk_memory_details(hint, layout);
    let ea = if layout.align() > 16 { layout.align() } else { 16 };
    let ea = if M > ea { M } else { ea };
    match r {
        Some(d) => {
            vassert!(d.align.is_power_of_two(), "NEVER: [C04] chunk alignment not a power of two");
            vassert!(d.align >= ea, "NEVER: [C04] chunk alignment below max(16, MIN_ALIGN, request)");
            vassert!(d.new_size_without_footer >= layout.size(), "NEVER: [C01,C19] usable size below the request");
            vassert!(d.new_size_without_footer >= ((layout.size() + (d.align - 1)) & !(d.align - 1)),
                    "NEVER: [C01,C09] usable size below the request rounded to the chunk alignment (the freshly acquired chunk could not serve the request)");
            vassert!(d.new_size_without_footer & 15 == 0, "NEVER: [C04] usable size not a multiple of 16 (footer would be misaligned)");
            vassert!(d.size == d.new_size_without_footer + FOOTER_SIZE, "NEVER: [C08,C19] total size is not usable + footer");
            vassert!(d.size > d.new_size_without_footer, "NEVER: [C19] total size wrapped");
            match hint {
                Some(h) => vassert!(d.new_size_without_footer >= h, "NEVER: [C18] usable size below the size asked for"),
                None => vassert!(d.new_size_without_footer >= DEFAULT, "NEVER: [C18] first chunk below the default size"),
            }
            // constant-factor: never more than twice what was needed plus a page
            let need = {
                let a = hint.unwrap_or(DEFAULT);
                let b = (layout.size() + (ea - 1)) & !(ea - 1);
                if a > b { a } else { b }
            };
            vassert!(d.new_size_without_footer <= need.saturating_mul(2).saturating_add(4096), "NEVER: [C18] chunk more than a constant factor above what was needed");
            kani::cover!(d.new_size_without_footer < 4096, "REACH: power-of-two regime");
            kani::cover!(d.new_size_without_footer > (1 << 40), "REACH: page-rounding regime, huge");
            kani::cover!(d.align == 4096, "REACH: over-aligned chunk");
            kani::cover!(d.size > isize::MAX as usize, "REACH: details beyond isize::MAX (refused later by Layout)");
        }
        None => {
            // rounding to a page cannot overflow under the stated magnitude bound
            vassert!(false, "NEVER: [C09,C18] size computation gave up on a representable size");
        }
    }
}

/// Monotonicity (C18: each new block is at least as large as the last when doubling).
pub fn details_monotone<const M: usize>() {
    let layout = any_layout(12);
    let h1: usize = kani::any();
    let h2: usize = kani::any();
    kani::assume(h1 <= h2 && h2 <= 2 * MAX_HELD);
    let a = Bump::<M>::new_chunk_memory_details(Some(h1), layout);
    let b = Bump::<M>::new_chunk_memory_details(Some(h2), layout);
    if let (Some(a), Some(b)) = (a, b) {
        vassert!(a.new_size_without_footer <= b.new_size_without_footer, "NEVER: [C18] chunk size computation is not monotone");
        vassert!(a.align == b.align, "NEVER: [C04] alignment depends on the size hint");
        kani::cover!(a.new_size_without_footer < b.new_size_without_footer, "REACH: strictly larger");
    }
    kani::cover!(true, "REACH: end");
}

/// The limit filter: a candidate is admitted only if its usable size is within the headroom.
#[kani::proof]
pub fn f5_fits_under_limit() {
    let rem: Option<usize> = kani::any();
    let d = NewChunkMemoryDetails {
        new_size_without_footer: kani::any(),
        align: any_pow2(4, 12),
        size: kani::any(),
    };
    let ok = Bump::<1>::chunk_fits_under_limit(rem, d);
    match rem {
        Some(r) => {
            vassert!(ok == (d.new_size_without_footer <= r), "NEVER: [C07] limit filter admits a chunk above the headroom (or refuses one within it)");
            kani::cover!(ok, "REACH: admitted");
            kani::cover!(!ok, "REACH: refused");
        }
        None => vassert!(ok, "NEVER: [C07] no headroom information must mean no filtering"),
    }
}

macro_rules! f5m {
    ($a:ident, $b:ident, $m:expr) => {
        #[kani::proof]
        pub fn $a() {
            details::<$m>();
        }
        #[kani::proof]
        pub fn $b() {
            details_monotone::<$m>();
        }
    };
}
f5m!(f5_details_m1, f5_monotone_m1, 1);
f5m!(f5_details_m8, f5_monotone_m8, 8);
f5m!(f5_details_m16, f5_monotone_m16, 16);
