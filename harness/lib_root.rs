// Included as `#[cfg(kani)] mod __verif { include!(".../lib_root.rs"); }` at the
// end of the scratch copy of src/lib.rs.  Being a child of the crate root, the
// harnesses see the crate's private items; no line of the copied source is
// edited.

// Oracle conditions are NON-CUTTING: `vassert!(cond, "NEVER: [Cxx] ...")` is a cover of the
// negated condition that must be unsatisfiable.  Kani's `assert!` is assert-then-assume, so
// the first violated assertion on a path hides every later one (and with it the property
// tags of the later ones); covers do not constrain the path.
#[cfg(not(test))]
macro_rules! vassert {
    ($cond:expr, $msg:literal) => {
        kani::cover!(!($cond), $msg)
    };
}
// native replay (cargo kani playback compiles with cfg(test)): a real assertion
#[cfg(test)]
macro_rules! vassert {
    ($cond:expr, $msg:literal) => {
        assert!($cond, $msg)
    };
}

pub mod common {
    include!("common.rs");
}
pub mod f1 {
    include!("f1_alloc.rs");
}
pub mod f5 {
    include!("f5_pure.rs");
}
pub mod f2 {
    include!("f2_realloc.rs");
}
pub mod f4 {
    include!("f4_decide.rs");
}
pub mod f6 {
    include!("f6_lifecycle.rs");
}
pub mod f3 {
    include!("f3_commit.rs");
}
pub mod f0 {
    include!("f0_base.rs");
}
pub mod f8 {
    include!("f8_iter.rs");
}
pub mod f7 {
    include!("f7_init.rs");
}
pub mod i1 {
    include!("i1_isolation.rs");
}
#[cfg(feature = "collections")]
pub mod v1 {
    include!("v1_vec.rs");
}
pub mod e1 {
    include!("e1_overflow.rs");
}
#[cfg(feature = "collections")]
pub mod s1 {
    include!("s1_string.rs");
}
#[cfg(all(feature = "collections", feature = "boxed"))]
pub mod dl {
    include!("dl_drops.rs");
}
pub mod t1 {
    include!("t1_twins.rs");
}
pub mod f2c {
    include!("f2c_content.rs");
}
