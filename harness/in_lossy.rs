// S2 — decoder kernels; included as a child module of collections::str::lossy (private items).
#[cfg(not(test))]
macro_rules! vassert {
    ($cond:expr, $msg:literal) => {
        kani::cover!(!($cond), $msg)
    };
}
// native replay (cargo kani playback compiles with cfg(test)): a real assertion
#[cfg(test)]
macro_rules! vassert {
    ($cond:expr, $msg:literal) => {
        assert!($cond, $msg)
    };
}
include!("utf8_spec.rs");

/// utf8_char_width vs the RFC 3629 lead-byte classification, all 256 bytes.
#[kani::proof]
pub fn s2_char_width() {
    let b: u8 = kani::any();
    let w = super::super::utf8_char_width(b);
    let want = if b < 0x80 {
        1
    } else if b >= 0xC2 && b <= 0xDF {
        2
    } else if b >= 0xE0 && b <= 0xEF {
        3
    } else if b >= 0xF0 && b <= 0xF4 {
        4
    } else {
        0
    };
    vassert!(w == want, "NEVER: [C14] utf8_char_width differs from the RFC 3629 lead-byte classification");
    kani::cover!(w == 4, "REACH: four-byte lead");
    kani::cover!(w == 0, "REACH: invalid lead");
}

/// The lossy decoder's first chunk vs the spec, for every input of <= N bytes; by applying the
/// same fact to the remaining suffix (also <= N bytes) the whole chunk sequence agrees.
pub fn s2_lossy<const N: usize>() {
    let mut b = [0u8; 5];
    let raw: [u8; 4] = kani::any();
    let n: usize = kani::any();
    kani::assume(n >= 1 && n <= N);
    let mut k = 0;
    while k < 4 {
        b[k] = raw[k];
        k += 1;
    }
    let lossy = super::Utf8Lossy::from_bytes(&b[..n]);
    let mut it = lossy.chunks();
    let c = it.next();
    let (sv, sb) = spec_first_chunk(&b, n);
    match c {
        Some(ch) => {
            vassert!(ch.valid.len() == sv, "NEVER: [C14] lossy decoder: valid prefix differs from the RFC 3629 maximal-subpart decoding (std behaviour)");
            vassert!(ch.broken.len() == sb, "NEVER: [C14] lossy decoder: broken sequence length differs from the RFC 3629 maximal-subpart decoding (std behaviour)");
            kani::cover!(sb == 3, "INFO: three-byte broken sequence");
            kani::cover!(sv == 3 && sb == 1, "INFO: valid three-byte char followed by a broken byte");
            kani::cover!(sb > 0, "REACH: broken sequence found");
            kani::cover!(sb == 0 && sv == n, "REACH: all valid");
        }
        None => vassert!(false, "NEVER: [C14] lossy decoder yielded nothing for a non-empty input"),
    }
}

#[kani::proof]
#[kani::unwind(7)]
pub fn s2_lossy_n2() {
    s2_lossy::<2>();
}
#[kani::proof]
#[kani::unwind(7)]
pub fn s2_lossy_n3() {
    s2_lossy::<3>();
}
#[kani::proof]
#[kani::unwind(7)]
pub fn s2_lossy_n4() {
    s2_lossy::<4>();
}

