// F3 — slow-commit: one real `try_alloc_layout` that may acquire a new chunk from
// A-pool (symbolic refusal mask over its requests, symbolic displacement of the
// returned block).  Acquire side of C03; committed path of C01/C04/C07/C08/C09/C18.
use super::common::*;
use super::f6::USABLE;
use crate::{Bump, ChunkFooter, FOOTER_SIZE};
use core::alloc::Layout;
use core::cell::Cell;
use core::mem::ManuallyDrop;
use core::ptr::NonNull;

pub fn f3_commit<const M: usize, const K: usize, const SIZE: usize, const ALIGN: usize, const DISP: u8, const OFF: usize, const LIMIT: usize, const SLOW: bool>() {
    unsafe {
        let mask: u8 = kani::any();
        pool_reset(mask);
        super::f6::CHUNK_ALIGN_OVERRIDE = 16;
        DISPLACE = DISP;
        // pre-state: chunk-less, or one hand-made registered chunk (448 usable) in slot 0
        // finger of the current chunk: CONCRETE per instance (a symbolic finger makes the fast-path
        // miss symbolic, after which CBMC no longer folds the slow path: 26 k -> 6.2 M SAT variables)
        let cur = super::f6::build_list_at::<M, K>(OFF);
        let limit: Option<usize> = if LIMIT == usize::MAX { kani::any() } else { Some(LIMIT) };
        if K == 0 && LIMIT == usize::MAX {
            // chunk-less arena with a symbolic limit: keep the small-limit bypass (up to 10 more
            // candidates, each a pool call under a symbolic guard: out of memory) out of this
            // instance; the bypass has its own instances with a concrete limit.
            kani::assume(limit.map_or(true, |l| l >= 448));
        }
        let bump = ManuallyDrop::new(Bump::<M> {
            current_chunk_footer: Cell::new(cur),
            allocation_limit: Cell::new(limit),
        });
        let nrec0 = NREC;
        let ab0 = bump.allocated_bytes();
        let cap0 = bump.chunk_capacity();
        let old_ptr = cur.as_ref().ptr.get().as_ptr() as usize;
        let s_old = snap(cur.as_ptr());
        NREQ = 0;
        NLOG = 0;

        // The request is CONCRETE per harness instance: with a symbolic size the candidate
        // chunk sizes are symbolic, every new footer is written at a symbolic offset and the
        // SAT conversion runs out of 16 GB even for a single call (measured).  Size arithmetic
        // for all sizes is decided by F1/F4/F5; this family decides the commit glue.
        let size: usize = SIZE;
        let align: usize = ALIGN;
        let layout = Layout::from_size_align(size, align).unwrap();

        // (SLOW: the over-aligned zero-sized request on a chunk-less arena; CBMC places the static
        // sentinel at an address aligned to 2^48, so the public entry point would always be served
        // by the sentinel itself; real addresses are only 8-aligned and take the slow path)
        let r = if SLOW { bump.alloc_layout_slow(layout).ok_or(crate::AllocErr) } else { bump.try_alloc_layout(layout) };

        vassert!(NFREE == 0, "NEVER: [C03] an allocation gave memory back to the global allocator");
        vassert!(!FOREIGN_FREE && !DOUBLE_FREE, "NEVER: [C03] bad free during an allocation");
        vassert!(empty_is_pristine(), "NEVER: [C20] shared static sentinel modified");
        // the old chunk is never touched by the slow path
        if K > 0 && NREC > nrec0 {
            vassert!(snap(cur.as_ptr()) == s_old, "NEVER: [C01,C08] footer of the previous chunk changed");
            vassert!(cur.as_ref().ptr.get().as_ptr() as usize == old_ptr, "NEVER: [C01] finger of the previous chunk moved");
        }
        match r {
            Ok(p) => {
                let p = p.as_ptr() as usize;
                vassert!(p != 0, "NEVER: [C01] null pointer returned");
                vassert!(p & (align - 1) == 0, "NEVER: [C04] requested alignment not honoured (new chunk)");
                vassert!(p & (M - 1) == 0, "NEVER: [C04] minimum alignment not honoured (new chunk)");
                if NREC == nrec0 {
                    // served by the current chunk
                    vassert!(NREQ == 0 || bump.current_chunk_footer.get() == cur, "NEVER: [C09] current chunk changed without a new block");
                    vassert!(bump.allocated_bytes() == ab0, "NEVER: [C08] accounting changed without a chunk change");
                    kani::cover!(true, "INFO: served by the current chunk");
                } else {
                    vassert!(NREC == nrec0 + 1, "NEVER: [C03] more than one block obtained for one request");
                    let rec = LEDGER[nrec0];
                    let f = bump.current_chunk_footer.get();
                    let fa = f.as_ptr() as usize;
                    // the new chunk is exactly the block the global allocator handed out
                    vassert!(f.as_ref().data.as_ptr() as usize == rec.ptr, "NEVER: [C03] chunk start is not the block obtained");
                    vassert!(f.as_ref().layout.size() == rec.size && f.as_ref().layout.align() == rec.align,
                            "NEVER: [C03] recorded layout differs from the layout requested from the global allocator");
                    vassert!(fa + FOOTER_SIZE == rec.ptr + rec.size, "NEVER: [C01] footer is not at the end of the block obtained");
                    vassert!(f.as_ref().prev.get() == cur, "NEVER: [C03,C10] new chunk is not linked in front of the previous one");
                    // C01: block inside the new chunk, below the footer
                    vassert!(p >= rec.ptr && p + size <= fa, "NEVER: [C01] block outside the new chunk / over its footer");
                    let fp = f.as_ref().ptr.get().as_ptr() as usize;
                    vassert!(fp <= p && fp >= rec.ptr && fp & (M - 1) == 0, "NEVER: [C01,C04] finger of the new chunk invalid");
                    // C08
                    vassert!(bump.allocated_bytes() == ab0 + (rec.size - FOOTER_SIZE), "NEVER: [C08] allocated_bytes != previous + usable size of the new chunk");
                    vassert!(bump.allocated_bytes_including_metadata() == ledger_live_bytes(), "NEVER: [C08] including_metadata != bytes held");
                    // C07
                    if let Some(l) = limit {
                        vassert!(bump.allocated_bytes() <= l, "NEVER: [C07] bytes held exceed the allocation limit after acquiring a chunk");
                    }
                    // C18: geometric growth when the first attempt is granted and nothing limits it
                    if limit.is_none() && mask & 1 == 0 && NLOG >= 1 && LOG[0].0 == rec.size && K > 0 {
                        vassert!(rec.size - FOOTER_SIZE >= 2 * USABLE[K - 1], "NEVER: [C18] new chunk smaller than twice the previous one although nothing refused it");
                    }
                    vassert!(rec.size - FOOTER_SIZE >= size, "NEVER: [C18] new chunk smaller than the request");
                    // C10 (fresh chunk): uniform request leaves no gap below the footer
                    if align <= 16 && align >= M && size & (align - 1) == 0 {
                        vassert!(p + size == fa, "NEVER: [C10] gap between the first object of a new chunk and its footer");
                    }
                    kani::cover!(true, "REACH: new chunk obtained");
                    kani::cover!(rec.ptr & 4095 != 0, "INFO: new block displaced (aligned to the request only)");
                    kani::cover!(NREQ >= 2, "INFO: new chunk obtained after a refusal");
                    kani::cover!(limit.is_some(), "INFO: new chunk under a limit");
                    kani::cover!(align == 64 && rec.ptr & 127 != 0, "INFO: over-aligned request in a block with exactly that alignment");
                }
            }
            Err(_) => {
                // C09: failure changes nothing; C03: no half-made chunk leaks
                vassert!(NREC == nrec0, "NEVER: [C03,C09] a block was obtained but the request failed (leak)");
                vassert!(bump.current_chunk_footer.get() == cur, "NEVER: [C09] current chunk changed by a failed request");
                vassert!(cur.as_ref().ptr.get().as_ptr() as usize == old_ptr, "NEVER: [C09] finger moved by a failed request");
                vassert!(bump.allocated_bytes() == ab0 && bump.chunk_capacity() == cap0, "NEVER: [C08,C09] accounting/capacity changed by a failed request");
                kani::cover!(true, "REACH: request failed");
                kani::cover!(NREQ >= 2, "INFO: several attempts, all refused");
                kani::cover!(NREQ == 0, "INFO: failed without asking (limit or size)");
            }
        }
        kani::cover!(true, "REACH: end of harness");
    }
}

macro_rules! f3 {
    ($name:ident, $m:expr, $k:expr, $size:expr, $align:expr, $disp:expr, $off:expr, $unwind:expr, $limit:expr) => {
        #[kani::proof]
        #[kani::unwind($unwind)]
        #[kani::stub(crate::core_alloc::alloc::alloc, alloc_pool)]
        #[kani::stub(crate::core_alloc::alloc::dealloc, dealloc_pool)]
        pub fn $name() {
            f3_commit::<{ $m }, { $k }, { $size }, { $align }, { $disp }, { $off }, { $limit }, false>();
        }
    };
}
// K = 1: previous chunk 448 usable
f3!(f3_commit_m1_k1_s400_a1_d0, 1, 1, 400, 1, 0, 8, 5, usize::MAX);
f3!(f3_commit_m1_k1_s24_a8_d1, 1, 1, 24, 8, 1, 16, 5, usize::MAX);
f3!(f3_commit_m8_k1_s100_a4_d3, 8, 1, 100, 4, 3, 96, 5, usize::MAX);
f3!(f3_commit_m16_k1_s1_a1_d1, 16, 1, 1, 1, 1, 0, 5, usize::MAX);
f3!(f3_commit_m1_k1_s64_a64_d1, 1, 1, 64, 64, 1, 32, 5, usize::MAX);
f3!(f3_commit_m1_k1_s0_a1_d0, 1, 1, 0, 1, 0, 0, 5, usize::MAX);
f3!(f3_commit_m1_k1_s900_a16_d3, 1, 1, 900, 16, 3, 448, 5, usize::MAX);
f3!(f3_commit_m8_k1_s448_a1_d0, 8, 1, 448, 1, 0, 0, 5, usize::MAX);
// K = 2: previous chunks 448 + 960
f3!(f3_commit_m1_k2_s700_a8_d1, 1, 2, 700, 8, 1, 600, 5, usize::MAX);
f3!(f3_commit_m16_k2_s700_a32_d1, 16, 2, 700, 32, 1, 96, 5, usize::MAX);
// K = 0: chunk-less arena, limit None or >= 448
f3!(f3_commit_m1_k0_s5_a1_d1, 1, 0, 5, 1, 1, 0, 4, usize::MAX);
#[kani::proof]
#[kani::unwind(4)]
#[kani::stub(crate::core_alloc::alloc::alloc, alloc_pool)]
#[kani::stub(crate::core_alloc::alloc::dealloc, dealloc_pool)]
pub fn f3_commit_m16_k0_s0_a64_d1() {
    f3_commit::<16, 0, 0, 64, 1, 0, { usize::MAX }, true>();
}
f3!(f3_commit_m4_k0_s300_a2_d3, 4, 0, 300, 2, 3, 0, 4, usize::MAX);
f3!(f3_commit_m1_k0_s64_a64_d1, 1, 0, 64, 64, 1, 0, 4, usize::MAX);
// K = 0, small-limit bypass: concrete limit, symbolic refusal mask
f3!(f3_commit_m1_k0_s5_a1_d0_l100, 1, 0, 5, 1, 0, 0, 14, 100);
#[kani::proof]
#[kani::unwind(14)]
#[kani::stub(crate::core_alloc::alloc::alloc, alloc_pool)]
#[kani::stub(crate::core_alloc::alloc::dealloc, dealloc_pool)]
pub fn f3_commit_m8_k0_s0_a8_d1_l64() {
    f3_commit::<8, 0, 0, 8, 1, 0, 64, true>();
}
f3!(f3_commit_m1_k0_s1_a1_d0_l10, 1, 0, 1, 1, 0, 0, 14, 10);

/// The chunk constructor alone (private `new_chunk` + `new_chunk_memory_details`), then the
/// chunk-list destructor: what is recorded in the footer is exactly what was requested from the
/// global allocator, also for over-aligned chunks (cheap; the full slow path with align 64 costs 4 min).
pub fn f3_new_chunk<const M: usize, const SIZE: usize, const ALIGN: usize, const DISP: u8, const PREV: usize>() {
    unsafe {
        pool_reset(0);
        super::f6::CHUNK_ALIGN_OVERRIDE = 16;
        DISPLACE = DISP;
        let layout = Layout::from_size_align(SIZE, ALIGN).unwrap();
        let d = Bump::<M>::new_chunk_memory_details(None, layout).unwrap();
        if PREV > 0 {
            // predecessor: a registered 448-byte chunk that is completely UNUSED (finger at its
            // footer) or partly used (symbolic): creating a new chunk must neither free nor skip it
            // (PREV = 2: the predecessor itself has an older chunk behind it, so its cumulative
            // allocated_bytes differs from its own usable size)
            let prev = if PREV == 1 { super::f6::build_list::<M, 1>() } else { super::f6::build_list::<M, 2>() };
            let f = Bump::<M>::new_chunk(d, layout, prev);
            vassert!(NFREE == 0 && !FOREIGN_FREE && ledger_live_count() == NREC, "NEVER: [C03] creating a chunk gave another chunk back to the global allocator");
            if let Some(f) = f {
                vassert!(NREC == PREV + 1 && f.as_ref().prev.get() == prev, "NEVER: [C03,C10] new chunk is not linked in front of its predecessor");
                vassert!(f.as_ref().allocated_bytes == prev.as_ref().allocated_bytes + (LEDGER[PREV].size - FOOTER_SIZE), "NEVER: [C07,C08] cumulative accounting of a chunk created behind older chunks is not the sum of their usable sizes");
                vassert!(f.as_ref().allocated_bytes + NREC * FOOTER_SIZE == ledger_live_bytes(), "NEVER: [C07,C08] cumulative accounting differs from the bytes held");
                kani::cover!(prev.as_ref().ptr.get().as_ptr() as usize == prev.as_ptr() as usize, "REACH: predecessor completely unused");
            }
            kani::cover!(true, "REACH: chunk created behind a predecessor");
            return;
        }
        let f = Bump::<M>::new_chunk(d, layout, empty_footer());
        match f {
            Some(f) => {
                vassert!(NREC == 1, "NEVER: [C03] new_chunk did not obtain exactly one block");
                let rec = LEDGER[0];
                let fa = f.as_ptr() as usize;
                vassert!(rec.size == d.size && rec.align == d.align, "NEVER: [C03] block requested with a different layout than computed");
                vassert!(f.as_ref().layout.size() == rec.size && f.as_ref().layout.align() == rec.align,
                        "NEVER: [C03] recorded layout differs from the layout requested from the global allocator");
                vassert!(f.as_ref().data.as_ptr() as usize == rec.ptr && fa + FOOTER_SIZE == rec.ptr + rec.size, "NEVER: [C01,C03] footer not at the end of the block obtained");
                vassert!(rec.ptr & (ALIGN - 1) == 0 && rec.align >= 16 && rec.align >= M && rec.align >= ALIGN, "NEVER: [C04] chunk alignment");
                vassert!(f.as_ref().ptr.get().as_ptr() as usize == fa, "NEVER: [C10] fresh chunk's finger is not at the footer");
                vassert!(f.as_ref().allocated_bytes == rec.size - FOOTER_SIZE, "NEVER: [C08] accounting of a first chunk != its usable size");
                vassert!(f.as_ref().prev.get() == empty_footer(), "NEVER: [C03] chunk not linked to its predecessor");
                crate::dealloc_chunk_list(f);
                vassert!(NFREE == 1 && !FOREIGN_FREE && !DOUBLE_FREE && ledger_live_count() == 0, "NEVER: [C03] chunk list destructor did not return exactly the block");
                vassert!(!LAYOUT_MISMATCH, "NEVER: [C03] block freed with a layout other than the one it was requested with");
                kani::cover!(true, "REACH: chunk created and released");
            }
            None => {
                vassert!(false, "NEVER: [C09] new_chunk failed although the allocator accepted");
            }
        }
    }
}
macro_rules! f3n {
    ($name:ident, $m:expr, $size:expr, $align:expr, $disp:expr) => {
        #[kani::proof]
        #[kani::unwind(5)]
        #[kani::stub(crate::core_alloc::alloc::alloc, alloc_pool)]
        #[kani::stub(crate::core_alloc::alloc::dealloc, dealloc_pool)]
        pub fn $name() {
            f3_new_chunk::<$m, $size, $align, $disp, 0>();
        }
    };
}
f3n!(f3_new_chunk_m1_s64_a64_d1, 1, 64, 64, 1);
f3n!(f3_new_chunk_m1_s10_a32_d3, 1, 10, 32, 3);
f3n!(f3_new_chunk_m16_s100_a8_d1, 16, 100, 8, 1);
f3n!(f3_new_chunk_m8_s600_a128_d0, 8, 600, 128, 0);

#[kani::proof]
#[kani::unwind(5)]
#[kani::stub(crate::core_alloc::alloc::alloc, alloc_pool)]
#[kani::stub(crate::core_alloc::alloc::dealloc, dealloc_pool)]
pub fn f3_new_chunk_prev_m1() {
    f3_new_chunk::<1, 500, 8, 1, 1>();
}
#[kani::proof]
#[kani::unwind(5)]
#[kani::stub(crate::core_alloc::alloc::alloc, alloc_pool)]
#[kani::stub(crate::core_alloc::alloc::dealloc, dealloc_pool)]
pub fn f3_new_chunk_prev_m16() {
    f3_new_chunk::<16, 100, 16, 0, 2>();
}
