// DL — drop ledger for Vec<D> (C15) and BX — boxed::Box (C17, C15).  DESIGN §6 C15, C17.
use super::common::*;
use crate::boxed::Box as BBox;
use crate::collections::Vec as BVec;
use crate::Bump;
use core::any::Any;

unsafe fn all_le_one() -> bool {
    let mut i = 0;
    let mut ok = true;
    while i < NIDS {
        if DROPS[i] > 1 {
            ok = false;
        }
        i += 1;
    }
    ok
}

pub const D_POP: u8 = 0;
pub const D_REMOVE: u8 = 1;
pub const D_SWAP_REMOVE: u8 = 2;
pub const D_TRUNCATE: u8 = 3;
pub const D_CLEAR: u8 = 4;
pub const D_DRAIN: u8 = 5;
pub const D_INTO_ITER: u8 = 6;
pub const D_RETAIN: u8 = 7;
pub const D_DEDUP: u8 = 8;
pub const D_SPLIT_OFF: u8 = 9;
pub const D_INTO_BOXED: u8 = 10;
pub const D_INTO_SLICE: u8 = 11;
pub const D_FORGET_DRAIN: u8 = 12;
pub const D_DROP_ONLY: u8 = 13;
pub const D_DRAIN_NTH: u8 = 14;
pub const D_SPLICE_END: u8 = 15;
pub const D_DRAIN_FILTER: u8 = 16;

/// Vec<D> with ids 0,1,2; one operation; container drop; arena stays (no destructor runs there).
pub fn dl<const OP: u8>() {
    let mut back = Backing::<304>([0u8; 304]);
    unsafe {
        drops_reset();
        let c = small_chunk::<1>(back.0.as_mut_ptr(), 256, 200);
        let mut bump = mk_bump::<1>(c.footer, None);
        // expected final count per id (1 = dropped exactly once, 0 = documented leak)
        let mut want = [1u8; 3];
        {
            let b: &Bump = &bump;
            let mut v0: BVec<D> = BVec::with_capacity_in(4, b);
            v0.push(D(0));
            v0.push(D(1));
            v0.push(D(2));
            let mut vo: Option<BVec<D>> = Some(v0);
            vassert!(DROPS[0] == 0 && DROPS[1] == 0 && DROPS[2] == 0, "NEVER: [C15] element dropped while it is being stored");
            let i: usize = kani::any();
            let j: usize = kani::any();
            match OP {
                D_POP => {
                    let v = vo.as_mut().unwrap();
                    let x = v.pop().unwrap();
                    vassert!(x.0 == 2 && DROPS[2] == 0, "NEVER: [C15] popped value already dropped (or wrong value)");
                    drop(x);
                    vassert!(DROPS[2] == 1, "NEVER: [C15] moved-out value not dropped by the caller exactly once");
                }
                D_REMOVE | D_SWAP_REMOVE => {
                    kani::assume(i < 3);
                    let v = vo.as_mut().unwrap();
                    let x = if OP == D_REMOVE { v.remove(i) } else { v.swap_remove(i) };
                    vassert!(x.0 as usize == i && DROPS[i] == 0, "NEVER: [C15] removed value already dropped (or wrong value)");
                    vassert!(DROPS[0] + DROPS[1] + DROPS[2] == 0, "NEVER: [C15] remove dropped an element that stays in the vector");
                    drop(x);
                }
                D_TRUNCATE => {
                    kani::assume(i <= 4);
                    vo.as_mut().unwrap().truncate(i);
                    let mut k = 0;
                    while k < 3 {
                        vassert!(DROPS[k] == if k >= i { 1 } else { 0 }, "NEVER: [C15] truncate dropped the wrong set of elements");
                        k += 1;
                    }
                }
                D_CLEAR => {
                    vo.as_mut().unwrap().clear();
                    vassert!(DROPS[0] == 1 && DROPS[1] == 1 && DROPS[2] == 1, "NEVER: [C15] clear did not drop every element once");
                }
                D_DRAIN | D_FORGET_DRAIN => {
                    kani::assume(i <= j && j <= 3);
                    let take: usize = kani::any();
                    kani::assume(take <= 3);
                    let v = vo.as_mut().unwrap();
                    let mut d = v.drain(i..j);
                    let mut k = 0;
                    while k < take {
                        if let Some(x) = d.next() {
                            vassert!(DROPS[x.0 as usize] == 0, "NEVER: [C15] drained item already dropped");
                            drop(x);
                        }
                        k += 1;
                    }
                    if OP == D_FORGET_DRAIN {
                        // documented leak amplification: everything from i on may leak, nothing may double-drop
                        core::mem::forget(d);
                        let mut k = i;
                        while k < 3 {
                            want[k] = 2; // 2 = "0 or 1"
                            k += 1;
                        }
                    } else {
                        drop(d);
                        let mut k = i;
                        while k < j {
                            vassert!(DROPS[k] == 1, "NEVER: [C15] drained range not dropped exactly once after Drain was dropped");
                            k += 1;
                        }
                    }
                }
                D_DRAIN_NTH => {
                    // stepping over drained items (nth / skip / step_by) still drops them
                    let v = vo.as_mut().unwrap();
                    kani::assume(i <= 2);
                    let mut d = v.drain(0..3);
                    let x = d.nth(i);
                    vassert!(x.is_some(), "NEVER: [C13] Drain::nth returned None inside the range");
                    if let Some(x) = x {
                        vassert!(x.0 as usize == i && DROPS[i] == 0, "NEVER: [C15] item returned by Drain::nth already dropped (or wrong item)");
                        drop(x);
                    }
                    drop(d);
                    vassert!(DROPS[0] == 1 && DROPS[1] == 1 && DROPS[2] == 1, "NEVER: [C15] drained items stepped over by nth() were not dropped exactly once");
                }
                D_SPLICE_END => {
                    // splice reaching the end of the vector, dropped without consuming the removed items
                    let v = vo.as_mut().unwrap();
                    {
                        let _sp = v.splice(1.., [D(5), D(6)]);
                    }
                    vassert!(DROPS[1] == 1 && DROPS[2] == 1, "NEVER: [C15] elements removed by splice not dropped exactly once");
                    vassert!(DROPS[0] == 0 && DROPS[5] == 0 && DROPS[6] == 0, "NEVER: [C15] elements that are still in the vector after splice were dropped");
                    vassert!(v.len() == 3 && v[0].0 == 0 && v[1].0 == 5 && v[2].0 == 6, "NEVER: [C13] contents after splice");
                }
                D_INTO_ITER => {
                    let front: usize = kani::any();
                    let back_n: usize = kani::any();
                    kani::assume(front <= 3 && back_n <= 3 && front + back_n <= 3);
                    let mut it = vo.take().unwrap().into_iter();
                    let mut k = 0;
                    while k < front {
                        let x = it.next().unwrap();
                        vassert!(x.0 as usize == k && DROPS[k] == 0, "NEVER: [C15] into_iter item already dropped (or out of order)");
                        drop(x);
                        k += 1;
                    }
                    k = 0;
                    while k < back_n {
                        let x = it.next_back().unwrap();
                        vassert!(x.0 as usize == 2 - k && DROPS[2 - k] == 0, "NEVER: [C15] into_iter back item already dropped (or out of order)");
                        drop(x);
                        k += 1;
                    }
                    drop(it);
                    vassert!(DROPS[0] == 1 && DROPS[1] == 1 && DROPS[2] == 1, "NEVER: [C15] IntoIter did not drop the remainder exactly once");
                    vassert!(all_le_one(), "NEVER: [C15] a value was dropped twice");
                    kani::cover!(front == 1 && back_n == 1, "INFO: partially consumed from both ends");
                }
                D_RETAIN => {
                    let mask: u8 = kani::any();
                    vo.as_mut().unwrap().retain(|d| (mask >> d.0) & 1 == 1);
                    let mut k = 0;
                    while k < 3 {
                        vassert!(DROPS[k] == if (mask >> k) & 1 == 1 { 0 } else { 1 }, "NEVER: [C15] retain dropped the wrong set of elements");
                        k += 1;
                    }
                }
                D_DEDUP => {
                    // ids 0,1,2 with key id/2: 0 and 1 are duplicates, the later one (1) is removed
                    let v = vo.as_mut().unwrap();
                    v.dedup_by_key(|d| d.0 / 2);
                    vassert!(DROPS[0] == 0 && DROPS[1] == 1 && DROPS[2] == 0, "NEVER: [C15] dedup dropped the wrong elements");
                    vassert!(v.len() == 2 && v[0].0 == 0 && v[1].0 == 2, "NEVER: [C13] dedup kept the wrong elements");
                }
                D_DRAIN_FILTER => {
                    // predicate = membership in a symbolic set; the caller consumes `take` of the yielded
                    // items and then drops the iterator, which must remove (and drop) the other matches
                    let mask: u8 = kani::any();
                    let take: usize = kani::any();
                    kani::assume(take <= 3);
                    let v = vo.as_mut().unwrap();
                    {
                        let mut it = v.drain_filter(|d| (mask >> d.0) & 1 == 1);
                        let mut t = 0;
                        let mut last: i32 = -1;
                        while t < take {
                            if let Some(x) = it.next() {
                                vassert!((mask >> x.0) & 1 == 1, "NEVER: [C13] drain_filter yielded an element the predicate rejected");
                                vassert!(DROPS[x.0 as usize] == 0, "NEVER: [C15] drain_filter yielded a value that was already dropped");
                                vassert!((x.0 as i32) > last, "NEVER: [C13] drain_filter yielded elements out of order or twice");
                                last = x.0 as i32;
                                drop(x);
                            }
                            t += 1;
                        }
                    }
                    let mut k = 0;
                    let mut kept = 0;
                    while k < 3 {
                        let sel = (mask >> k) & 1 == 1;
                        vassert!(DROPS[k] == if sel { 1 } else { 0 }, "NEVER: [C15] drain_filter (+ dropping its iterator) dropped the wrong set of elements");
                        if !sel {
                            vassert!(kept < v.len() && v[kept].0 as usize == k, "NEVER: [C13] drain_filter left different elements (or a different order) in the vector than std");
                            kept += 1;
                        }
                        k += 1;
                    }
                    vassert!(v.len() == kept, "NEVER: [C13] length after drain_filter differs from std's");
                    kani::cover!(mask & 7 == 2 && take == 0, "INFO: middle element removed by dropping the iterator");
                }
                D_SPLIT_OFF => {
                    kani::assume(i <= 3);
                    let t = vo.as_mut().unwrap().split_off(i);
                    vassert!(DROPS[0] + DROPS[1] + DROPS[2] == 0, "NEVER: [C15] split_off dropped an element");
                    drop(t);
                    let mut k = 0;
                    while k < 3 {
                        vassert!(DROPS[k] == if k >= i { 1 } else { 0 }, "NEVER: [C15] dropping the split-off tail dropped the wrong elements");
                        k += 1;
                    }
                }
                D_INTO_BOXED => {
                    let bx = vo.take().unwrap().into_boxed_slice();
                    vassert!(DROPS[0] + DROPS[1] + DROPS[2] == 0, "NEVER: [C15,C17] into_boxed_slice dropped an element");
                    vassert!(bx.len() == 3 && bx[0].0 == 0 && bx[1].0 == 1 && bx[2].0 == 2, "NEVER: [C17] into_boxed_slice changed the elements or their order");
                    drop(bx);
                    vassert!(DROPS[0] == 1 && DROPS[1] == 1 && DROPS[2] == 1, "NEVER: [C15,C17] boxed slice did not drop every element once");
                }
                D_INTO_SLICE => {
                    let s = vo.take().unwrap().into_bump_slice();
                    vassert!(s.len() == 3 && s[1].0 == 1, "NEVER: [C13] into_bump_slice changed the elements");
                    vassert!(DROPS[0] + DROPS[1] + DROPS[2] == 0, "NEVER: [C15] into_bump_slice ran a destructor");
                    want = [0, 0, 0];
                }
                _ => {}
            }
            vassert!(all_le_one(), "NEVER: [C15] a value was dropped twice");
            // reachable elements are not dropped yet
            if let Some(v) = vo.as_ref() {
                let mut k = 0;
                while k < v.len() {
                    let id = v[k].0 as usize;
                    vassert!(DROPS[id] == 0, "NEVER: [C15] a value still reachable through the vector has been dropped");
                    k += 1;
                }
            }
            drop(vo);
        }
        let mut k = 0;
        while k < 3 {
            if want[k] == 2 {
                vassert!(DROPS[k] <= 1, "NEVER: [C15] a value was dropped twice");
            } else {
                vassert!(DROPS[k] == want[k], "NEVER: [C15] element not dropped exactly once over the container's life");
            }
            k += 1;
        }
        let w2 = [DROPS[0], DROPS[1], DROPS[2]];
        bump_reset_and_check(&mut bump, &w2);
    }
}

/// The arena's own reset never runs destructors.
unsafe fn bump_reset_and_check(bump: &mut core::mem::ManuallyDrop<Bump>, want: &[u8; 3]) {
    bump.reset();
    vassert!(DROPS[0] == want[0] && DROPS[1] == want[1] && DROPS[2] == want[2], "NEVER: [C15] arena reset ran (or re-ran) a destructor");
    kani::cover!(true, "REACH: end of harness");
}

// ---------------------------------------------------------------------------
// BX — boxed::Box
// ---------------------------------------------------------------------------
pub fn bx_basic() {
    let mut back = Backing::<304>([0u8; 304]);
    unsafe {
        drops_reset();
        NDEALLOC = 0;
        let c = small_chunk::<1>(back.0.as_mut_ptr(), 256, 200);
        let bump = mk_bump::<1>(c.footer, None);
        let b: &Bump = &bump;
        let v: u32 = kani::any();
        let w: u32 = kani::any();
        let x = BBox::new_in(v, b);
        let y = BBox::new_in(w, b);
        vassert!(*x == v, "NEVER: [C17] Box does not dereference to the value it was given");
        vassert!((x == y) == (v == w) && (x < y) == (v < w) && (x <= y) == (v <= w) && (x >= y) == (v >= w) && (x > y) == (v > w),
                "NEVER: [C17] Box comparison differs from the value's");
        vassert!(x.cmp(&y) == v.cmp(&w) && x.partial_cmp(&y) == v.partial_cmp(&w), "NEVER: [C17] Box ordering differs from the value's");
        // drop: destructor once, no arena memory released, finger unchanged
        let d = BBox::new_in(D(4), b);
        let p0 = c.cur_ptr() as usize;
        vassert!(d.0 == 4 && DROPS[4] == 0, "NEVER: [C17] boxed value dropped early");
        drop(d);
        vassert!(DROPS[4] == 1, "NEVER: [C15,C17] Box drop did not run the destructor exactly once");
        vassert!(NDEALLOC == 0 && c.cur_ptr() as usize == p0, "NEVER: [C17] Box drop released arena memory");
        // into_inner
        let e = BBox::new_in(D(5), b);
        let inner = BBox::into_inner(e);
        vassert!(inner.0 == 5 && DROPS[5] == 0, "NEVER: [C15,C17] into_inner dropped or changed the value");
        drop(inner);
        vassert!(DROPS[5] == 1, "NEVER: [C15] value from into_inner not dropped exactly once");
        // into_raw / from_raw and leak
        let f = BBox::new_in(D(6), b);
        let raw = BBox::into_raw(f);
        vassert!(DROPS[6] == 0 && (*raw).0 == 6, "NEVER: [C15,C17] into_raw dropped or changed the value");
        let g = BBox::from_raw(raw);
        vassert!(g.0 == 6 && DROPS[6] == 0, "NEVER: [C17] from_raw round trip changed the value");
        let l = BBox::leak(g);
        vassert!(l.0 == 6 && DROPS[6] == 0, "NEVER: [C15,C17] leak ran the destructor");
        // pin_in
        let pn = BBox::pin_in(v, b);
        vassert!(*pn == v, "NEVER: [C17] pinned box does not dereference to its value");
        kani::cover!(v < w, "REACH: ordered values");
        kani::cover!(true, "REACH: end of harness");
    }
}

/// Partial orders: a Box compares exactly as its (incomparable) payload does.
pub fn bx_partial_ord() {
    let mut back = Backing::<304>([0u8; 304]);
    unsafe {
        let c = small_chunk::<1>(back.0.as_mut_ptr(), 256, 200);
        let bump = mk_bump::<1>(c.footer, None);
        let b: &Bump = &bump;
        let v: f32 = kani::any();
        let w: f32 = kani::any();
        let x = BBox::new_in(v, b);
        let y = BBox::new_in(w, b);
        vassert!((x < y) == (v < w), "NEVER: [C17] Box `<` differs from the value's");
        vassert!((x <= y) == (v <= w), "NEVER: [C17] Box `<=` differs from the value's");
        vassert!((x > y) == (v > w), "NEVER: [C17] Box `>` differs from the value's");
        vassert!((x >= y) == (v >= w), "NEVER: [C17] Box `>=` differs from the value's");
        vassert!((x == y) == (v == w) && (x != y) == (v != w), "NEVER: [C17] Box equality differs from the value's");
        vassert!(x.partial_cmp(&y) == v.partial_cmp(&w), "NEVER: [C17] Box partial_cmp differs from the value's");
        // a box compared with ITSELF (aliasing operands) must still ask the value: NaN != NaN
        #[allow(clippy::eq_op)]
        {
            vassert!((x == x) == (v == v) && (x != x) == (v != v), "NEVER: [C17] Box compared with itself: equality differs from the value's (identity shortcut?)");
            vassert!((x <= x) == (v <= v) && (x < x) == (v < v), "NEVER: [C17] Box compared with itself: ordering differs from the value's");
            vassert!(x.partial_cmp(&x) == v.partial_cmp(&v), "NEVER: [C17] Box compared with itself: partial_cmp differs from the value's");
        }
        kani::cover!(v != v, "REACH: incomparable payload (NaN)");
    }
}

pub fn bx_downcast() {
    let mut back = Backing::<304>([0u8; 304]);
    unsafe {
        drops_reset();
        let c = small_chunk::<1>(back.0.as_mut_ptr(), 256, 200);
        let bump = mk_bump::<1>(c.footer, None);
        let b: &Bump = &bump;
        let v: u32 = kani::any();
        let which: bool = kani::any();
        let any: BBox<dyn Any> = if which {
            let x = BBox::new_in(v, b);
            BBox::from_raw(BBox::into_raw(x) as *mut dyn Any)
        } else {
            let x = BBox::new_in(D(1), b);
            BBox::from_raw(BBox::into_raw(x) as *mut dyn Any)
        };
        match any.downcast::<u32>() {
            Ok(x) => {
                vassert!(which && *x == v, "NEVER: [C17] downcast succeeded for the wrong type or changed the value");
            }
            Err(back_box) => {
                vassert!(!which, "NEVER: [C17] downcast failed for the matching type");
                vassert!(DROPS[1] == 0, "NEVER: [C15,C17] failed downcast dropped the value");
                match back_box.downcast::<D>() {
                    Ok(d) => {
                        vassert!(d.0 == 1, "NEVER: [C17] failed downcast did not give the box back intact");
                        drop(d);
                        vassert!(DROPS[1] == 1, "NEVER: [C15] value not dropped exactly once");
                    }
                    Err(_) => vassert!(false, "NEVER: [C17] box returned by a failed downcast lost its type"),
                }
            }
        }
        kani::cover!(which, "REACH: matching downcast");
        kani::cover!(!which, "REACH: non-matching downcast");
    }
}

pub fn bx_slices() {
    let mut back = Backing::<304>([0u8; 304]);
    unsafe {
        drops_reset();
        let c = small_chunk::<1>(back.0.as_mut_ptr(), 256, 200);
        let bump = mk_bump::<1>(c.footer, None);
        let b: &Bump = &bump;
        let arr = BBox::new_in([D(0), D(1), D(2)], b);
        let sl: BBox<[D]> = arr.into();
        vassert!(sl.len() == 3 && sl[0].0 == 0 && sl[2].0 == 2 && DROPS[0] + DROPS[1] + DROPS[2] == 0, "NEVER: [C17] array -> slice conversion changed or dropped elements");
        // wrong length is refused and gives the box back intact
        let r2: Result<BBox<[D; 2]>, BBox<[D]>> = BBox::try_from(sl);
        let sl = match r2 {
            Ok(_) => {
                vassert!(false, "NEVER: [C15,C17] a boxed slice of 3 elements was accepted as an array of 2 (the third element loses its owner)");
                return;
            }
            Err(s) => s,
        };
        vassert!(sl.len() == 3 && DROPS[0] + DROPS[1] + DROPS[2] == 0, "NEVER: [C17] refused conversion changed or dropped elements");
        let r3: Result<BBox<[D; 3]>, BBox<[D]>> = BBox::try_from(sl);
        match r3 {
            Ok(a3) => {
                vassert!(a3[0].0 == 0 && a3[1].0 == 1 && a3[2].0 == 2 && DROPS[0] + DROPS[1] + DROPS[2] == 0, "NEVER: [C17] slice -> array conversion changed order or dropped elements");
                drop(a3);
                vassert!(DROPS[0] == 1 && DROPS[1] == 1 && DROPS[2] == 1, "NEVER: [C15,C17] boxed array did not drop each element exactly once");
            }
            Err(_) => vassert!(false, "NEVER: [C17] a boxed slice of 3 elements was refused as an array of 3"),
        }
        kani::cover!(true, "REACH: end of harness");
    }
}

/// Vec with spare capacity -> boxed slice, followed by a later allocation: the boxed elements
/// stay where the box points and keep their values.
pub fn bx_from_vec_spare() {
    let mut back = Backing::<304>([0u8; 304]);
    unsafe {
        let c = small_chunk::<1>(back.0.as_mut_ptr(), 256, 200);
        let bump = mk_bump::<1>(c.footer, None);
        let b: &Bump = &bump;
        let e: [u32; 2] = kani::any();
        let mut v: BVec<u32> = BVec::with_capacity_in(8, b); // the vector is the last allocation
        v.push(e[0]);
        v.push(e[1]);
        let which: bool = kani::any();
        let fill: u32 = kani::any();
        if which {
            let bx = v.into_boxed_slice();
            let later = b.alloc_slice_fill_copy(8, fill);
            vassert!(bx.len() == 2 && bx[0] == e[0] && bx[1] == e[1], "NEVER: [C17] boxed slice made from a vector lost its elements after a later allocation");
            let lp = later.as_ptr() as usize;
            let bp = bx.as_ptr() as usize;
            vassert!(lp + 32 <= bp || bp + 8 <= lp, "NEVER: [C01,C17] later allocation overlaps the boxed slice");
        } else {
            let s = v.into_bump_slice();
            let later = b.alloc_slice_fill_copy(8, fill);
            vassert!(s.len() == 2 && s[0] == e[0] && s[1] == e[1], "NEVER: [C13] slice made from a vector lost its elements after a later allocation");
            let lp = later.as_ptr() as usize;
            let sp = s.as_ptr() as usize;
            vassert!(lp + 32 <= sp || sp + 8 <= lp, "NEVER: [C01,C13] later allocation overlaps the slice");
        }
        kani::cover!(which, "REACH: into_boxed_slice");
        kani::cover!(!which, "REACH: into_bump_slice");
    }
}

macro_rules! dh {
    ($name:ident, $unwind:expr, $body:expr) => {
        #[kani::proof]
        #[kani::unwind($unwind)]
        #[kani::stub(crate::core_alloc::alloc::alloc, alloc_cut)]
        #[kani::stub(crate::core_alloc::alloc::dealloc, dealloc_count)]
        #[kani::stub(core::ptr::copy_nonoverlapping, cno_loop)]
        #[kani::stub(core::ptr::copy, copy_loop)]
        pub fn $name() {
            $body
        }
    };
}
dh!(dl_pop, 10, dl::<D_POP>());
dh!(dl_remove, 10, dl::<D_REMOVE>());
dh!(dl_swap_remove, 10, dl::<D_SWAP_REMOVE>());
dh!(dl_truncate, 10, dl::<D_TRUNCATE>());
dh!(dl_clear, 10, dl::<D_CLEAR>());
dh!(dl_drain, 10, dl::<D_DRAIN>());
dh!(dl_forget_drain, 10, dl::<D_FORGET_DRAIN>());
dh!(dl_into_iter, 10, dl::<D_INTO_ITER>());
dh!(dl_retain, 10, dl::<D_RETAIN>());
dh!(dl_dedup, 10, dl::<D_DEDUP>());
dh!(dl_split_off, 10, dl::<D_SPLIT_OFF>());
dh!(dl_into_boxed, 10, dl::<D_INTO_BOXED>());
dh!(dl_into_slice, 10, dl::<D_INTO_SLICE>());
dh!(dl_drop_only, 10, dl::<D_DROP_ONLY>());
dh!(dl_drain_nth, 10, dl::<D_DRAIN_NTH>());
dh!(dl_drain_filter, 10, dl::<D_DRAIN_FILTER>());
// (dl_splice_end: timeout 25 min, not registered)
dh!(bx_basic_h, 10, bx_basic());
dh!(bx_partial_ord_h, 10, bx_partial_ord());
dh!(bx_downcast_h, 10, bx_downcast());
dh!(bx_slices_h, 10, bx_slices());
dh!(bx_from_vec_spare_h, 36, bx_from_vec_spare());

// (A Vec of zero-sized elements with a destructor cannot be analysed: Kani 0.68 rejects the
// dangling-pointer arithmetic of zero-sized IntoIter with "does not support reasoning about
// pointer to unallocated memory"; measured, see DESIGN.)

/// Boxed slices of zero-sized elements with a destructor: length checks must not be byte-based.
pub static mut ZB: usize = 0;
pub struct Zb;
impl Drop for Zb {
    fn drop(&mut self) {
        unsafe {
            ZB += 1;
        }
    }
}
pub fn bx_slices_zst() {
    let mut back = Backing::<304>([0u8; 304]);
    unsafe {
        ZB = 0;
        let c = small_chunk::<1>(back.0.as_mut_ptr(), 256, 200);
        let bump = mk_bump::<1>(c.footer, None);
        let b: &Bump = &bump;
        let arr = BBox::new_in([Zb, Zb, Zb], b);
        let sl: BBox<[Zb]> = arr.into();
        let r2: Result<BBox<[Zb; 2]>, BBox<[Zb]>> = BBox::try_from(sl);
        match r2 {
            Ok(_) => {
                vassert!(false, "NEVER: [C15,C17] a boxed slice of 3 zero-sized elements was accepted as an array of 2");
            }
            Err(s) => {
                vassert!(s.len() == 3 && ZB == 0, "NEVER: [C17] refused conversion changed or dropped elements");
                drop(s);
                vassert!(ZB == 3, "NEVER: [C15,C17] boxed slice of zero-sized elements did not drop each element exactly once");
            }
        }
        kani::cover!(true, "REACH: end of harness");
    }
}
dh!(bx_slices_zst_h, 10, bx_slices_zst());
