// S1/S2 — collections::String: one operation on a string of <= 4 bytes (valid UTF-8, any
// mix of 1..4-byte characters that fits) with symbolic index / char, against a byte-array
// model; decoders against an RFC 3629 spec written here (DESIGN §6 C14).
use super::common::*;
use crate::collections::String as BString;
use crate::collections::Vec as BVec;
use crate::Bump;

include!("utf8_spec.rs");

pub const S_PUSH: u8 = 0;
pub const S_PUSH_STR: u8 = 1;
pub const S_POP: u8 = 2;
pub const S_INSERT: u8 = 3;
pub const S_REMOVE: u8 = 4;
pub const S_TRUNCATE: u8 = 5;
pub const S_SPLIT_OFF: u8 = 6;
pub const S_DRAIN: u8 = 7;
pub const S_REPLACE: u8 = 8;
pub const S_REPLACE_INCL: u8 = 9;
pub const S_INSERT_STR: u8 = 10;
pub const S_RETAIN: u8 = 11;

fn check_same(s: &BString, m: &[u8; 12], mn: usize) {
    vassert!(s.len() == mn, "NEVER: [C14] length differs from the reference model");
    let k: usize = kani::any();
    if k < mn {
        vassert!(s.as_bytes()[k] == m[k], "NEVER: [C14] byte differs from the reference model");
    }
}

/// One String operation; `WANT_PANIC` selects the argument class (legal / illegal index).
pub fn s1<const OP: u8, const WANT_PANIC: bool, const N: usize>() {
    let mut back = Backing::<304>([0u8; 304]);
    unsafe {
        let c = small_chunk::<1>(back.0.as_mut_ptr(), 256, 200);
        let bump = mk_bump::<1>(c.footer, None);
        let raw: [u8; 4] = kani::any();
        // the byte length is CONCRETE per instance (contents symbolic): with a symbolic length the
        // "vector is full" test of every push is symbolic and the growth path is unrolled each time
        let n: usize = N;
        let mut b = [0u8; 5];
        let mut k = 0;
        while k < 4 {
            b[k] = raw[k];
            k += 1;
        }
        kani::assume(spec_valid(&b, n));
        // capacity 12: no operation below has to reallocate (reallocation is the subject of the
        // Vec/realloc families; with it in the picture push/replace_range ran past 40 min)
        let mut v: BVec<u8> = BVec::with_capacity_in(12, &bump);
        k = 0;
        while k < n {
            v.push(b[k]);
            k += 1;
        }
        let mut s = BString::from_utf8_unchecked(v);
        // model
        let mut m = [0u8; 12];
        let mut mn = n;
        k = 0;
        while k < n {
            m[k] = b[k];
            k += 1;
        }
        let i: usize = kani::any();
        let j: usize = kani::any();
        let ch: char = kani::any();
        let mut cb = [0u8; 4];
        let cl = ch.encode_utf8(&mut cb).len();
        let legal_i = i <= n && is_boundary(&b, n, i);
        let legal_j = j <= n && is_boundary(&b, n, j);
        match OP {
            S_PUSH => {
                s.push(ch);
                k = 0;
                while k < cl {
                    m[mn + k] = cb[k];
                    k += 1;
                }
                mn += cl;
            }
            S_PUSH_STR => {
                let t = core::str::from_utf8_unchecked(&cb[..cl]);
                s.push_str(t);
                k = 0;
                while k < cl {
                    m[mn + k] = cb[k];
                    k += 1;
                }
                mn += cl;
            }
            S_POP => {
                let r = s.pop();
                if n == 0 {
                    vassert!(r.is_none(), "NEVER: [C14] pop on an empty string returned a char");
                } else {
                    // last char starts at the last boundary below n
                    let mut st = n - 1;
                    while st > 0 && b[st] & 0xC0 == 0x80 {
                        st -= 1;
                    }
                    let mut eb = [0u8; 4];
                    let rl = r.unwrap().encode_utf8(&mut eb).len();
                    vassert!(rl == n - st, "NEVER: [C14] pop returned a char of the wrong width");
                    let q: usize = kani::any();
                    if q < rl {
                        vassert!(eb[q] == b[st + q], "NEVER: [C14] pop returned a different char than the text ends with");
                    }
                    mn = st;
                }
            }
            S_INSERT | S_INSERT_STR => {
                if WANT_PANIC {
                    kani::assume(!legal_i);
                } else {
                    kani::assume(legal_i);
                }
                if OP == S_INSERT {
                    s.insert(i, ch);
                } else {
                    s.insert_str(i, core::str::from_utf8_unchecked(&cb[..cl]));
                }
                if !WANT_PANIC {
                    k = mn;
                    while k > i {
                        m[k - 1 + cl] = m[k - 1];
                        k -= 1;
                    }
                    k = 0;
                    while k < cl {
                        m[i + k] = cb[k];
                        k += 1;
                    }
                    mn += cl;
                }
            }
            S_REMOVE => {
                let legal = i < n && is_boundary(&b, n, i);
                if WANT_PANIC {
                    kani::assume(!legal);
                } else {
                    kani::assume(legal);
                }
                let r = s.remove(i);
                if !WANT_PANIC {
                    let (w, _) = seq_at(&b, n, i);
                    let mut eb = [0u8; 4];
                    let rl = r.encode_utf8(&mut eb).len();
                    vassert!(rl == w, "NEVER: [C14] remove returned a char of the wrong width");
                    let q: usize = kani::any();
                    if q < rl {
                        vassert!(eb[q] == b[i + q], "NEVER: [C14] remove returned a different char than the one at the index");
                    }
                    k = i;
                    while k + w < mn {
                        m[k] = m[k + w];
                        k += 1;
                    }
                    mn -= w;
                }
            }
            S_TRUNCATE => {
                // std: no-op when new_len > len; panics when new_len <= len is not a boundary
                let legal = i > n || legal_i;
                if WANT_PANIC {
                    kani::assume(!legal);
                } else {
                    kani::assume(legal);
                }
                s.truncate(i);
                if !WANT_PANIC && i <= n {
                    mn = i;
                }
            }
            S_SPLIT_OFF => {
                if WANT_PANIC {
                    kani::assume(!legal_i);
                } else {
                    kani::assume(legal_i);
                }
                let t = s.split_off(i);
                if !WANT_PANIC {
                    vassert!(t.len() == n - i, "NEVER: [C14] split_off tail has the wrong length");
                    let q: usize = kani::any();
                    if q < n - i {
                        vassert!(t.as_bytes()[q] == b[i + q], "NEVER: [C14] split_off tail differs from the reference model");
                    }
                    mn = i;
                }
            }
            S_DRAIN => {
                let legal = i <= j && legal_i && legal_j;
                if WANT_PANIC {
                    kani::assume(!legal);
                } else {
                    kani::assume(legal);
                }
                {
                    let d = s.drain(i..j);
                    drop(d);
                }
                if !WANT_PANIC {
                    k = i;
                    while k + (j - i) < mn {
                        m[k] = m[k + (j - i)];
                        k += 1;
                    }
                    mn -= j - i;
                }
            }
            S_REPLACE | S_REPLACE_INCL => {
                // exclusive end e: range i..j ; inclusive: i..=j means e = j + 1
                let e = if OP == S_REPLACE { j } else { j.wrapping_add(1) };
                kani::assume(OP == S_REPLACE || j < usize::MAX);
                let legal = i <= e && e <= n && is_boundary(&b, n, i) && is_boundary(&b, n, e);
                if WANT_PANIC {
                    kani::assume(!legal);
                } else {
                    kani::assume(legal);
                }
                let t = core::str::from_utf8_unchecked(&cb[..cl]);
                if OP == S_REPLACE {
                    s.replace_range(i..j, t);
                } else {
                    s.replace_range(i..=j, t);
                }
                if !WANT_PANIC {
                    // model: remove [i, e), insert cb at i
                    let w = e - i;
                    k = i;
                    while k + w < mn {
                        m[k] = m[k + w];
                        k += 1;
                    }
                    mn -= w;
                    k = mn;
                    while k > i {
                        m[k - 1 + cl] = m[k - 1];
                        k -= 1;
                    }
                    k = 0;
                    while k < cl {
                        m[i + k] = cb[k];
                        k += 1;
                    }
                    mn += cl;
                }
            }
            _ => {
                // retain: keep chars whose first byte has bit (mask) set
                let mask: u8 = kani::any();
                s.retain(|c| {
                    let mut eb = [0u8; 4];
                    c.encode_utf8(&mut eb);
                    (mask >> (eb[0] & 7)) & 1 == 1
                });
                let mut out = [0u8; 12];
                let mut on = 0;
                let mut p = 0;
                let mut steps = 0;
                while p < n && steps < 4 {
                    let (w, _) = seq_at(&b, n, p);
                    if (mask >> (b[p] & 7)) & 1 == 1 {
                        let mut q = 0;
                        while q < w {
                            out[on + q] = b[p + q];
                            q += 1;
                        }
                        on += w;
                    }
                    p += w;
                    steps += 1;
                }
                m = out;
                mn = on;
            }
        }
        if WANT_PANIC {
            kani::cover!(true, "NEVER: a String operation returned normally for a non-boundary or out-of-range index (std panics)");
        } else {
            check_same(&s, &m, mn);
            // still valid UTF-8
            let mut chk = [0u8; 5];
            if mn <= 4 {
                k = 0;
                while k < mn {
                    chk[k] = s.as_bytes()[k];
                    k += 1;
                }
                vassert!(spec_valid(&chk, mn), "NEVER: [C14] string is not valid UTF-8 after the operation");
            }
            kani::cover!(n < 4 || b[0] >= 0xF0, "REACH: four-byte character in the text");
            kani::cover!(n < 3 || (b[0] < 0x80 && b[1] >= 0xC2), "REACH: mixed one- and two-byte characters");
            kani::cover!(true, "REACH: end of harness");
        }
    }
}

macro_rules! sh {
    ($name:ident, $unwind:expr, $body:expr) => {
        #[kani::proof]
        #[kani::unwind($unwind)]
        #[kani::stub(crate::core_alloc::alloc::alloc, alloc_cut)]
        #[kani::stub(crate::core_alloc::alloc::dealloc, dealloc_count)]
        #[kani::stub(core::ptr::copy_nonoverlapping, cno_loop)]
        #[kani::stub(core::ptr::copy, copy_loop)]
        pub fn $name() {
            $body
        }
    };
}
sh!(s1_push_str_n2, 14, s1::<S_PUSH_STR, false, 2>());
sh!(s1_push_str_n3, 14, s1::<S_PUSH_STR, false, 3>());
sh!(s1_push_str_n4, 14, s1::<S_PUSH_STR, false, 4>());
sh!(s1_pop_n2, 14, s1::<S_POP, false, 2>());
sh!(s1_pop_n3, 14, s1::<S_POP, false, 3>());
sh!(s1_pop_n4, 14, s1::<S_POP, false, 4>());
sh!(s1_insert_n2, 14, s1::<S_INSERT, false, 2>());
sh!(s1_insert_n3, 14, s1::<S_INSERT, false, 3>());
sh!(s1_insert_n4, 14, s1::<S_INSERT, false, 4>());
sh!(s1_insert_str_n2, 14, s1::<S_INSERT_STR, false, 2>());
sh!(s1_insert_str_n3, 14, s1::<S_INSERT_STR, false, 3>());
sh!(s1_insert_str_n4, 14, s1::<S_INSERT_STR, false, 4>());
sh!(s1_remove_n2, 14, s1::<S_REMOVE, false, 2>());
sh!(s1_remove_n3, 14, s1::<S_REMOVE, false, 3>());
sh!(s1_remove_n4, 14, s1::<S_REMOVE, false, 4>());
sh!(s1_truncate_n2, 14, s1::<S_TRUNCATE, false, 2>());
sh!(s1_truncate_n3, 14, s1::<S_TRUNCATE, false, 3>());
sh!(s1_truncate_n4, 14, s1::<S_TRUNCATE, false, 4>());
sh!(s1_split_off_n2, 14, s1::<S_SPLIT_OFF, false, 2>());
sh!(s1_split_off_n3, 14, s1::<S_SPLIT_OFF, false, 3>());
sh!(s1_split_off_n4, 14, s1::<S_SPLIT_OFF, false, 4>());
sh!(s1_drain_n2, 14, s1::<S_DRAIN, false, 2>());
sh!(s1_drain_n3, 14, s1::<S_DRAIN, false, 3>());
sh!(s1_drain_n4, 14, s1::<S_DRAIN, false, 4>());
sh!(s1_retain_n2, 14, s1::<S_RETAIN, false, 2>());
sh!(s1_retain_n3, 14, s1::<S_RETAIN, false, 3>());
sh!(s1_retain_n4, 14, s1::<S_RETAIN, false, 4>());
sh!(s1p_insert_n2, 14, s1::<S_INSERT, true, 2>());
sh!(s1p_insert_n4, 14, s1::<S_INSERT, true, 4>());
sh!(s1p_insert_str_n2, 14, s1::<S_INSERT_STR, true, 2>());
sh!(s1p_insert_str_n4, 14, s1::<S_INSERT_STR, true, 4>());
sh!(s1p_remove_n2, 14, s1::<S_REMOVE, true, 2>());
sh!(s1p_remove_n4, 14, s1::<S_REMOVE, true, 4>());
sh!(s1p_truncate_n2, 14, s1::<S_TRUNCATE, true, 2>());
sh!(s1p_truncate_n4, 14, s1::<S_TRUNCATE, true, 4>());
sh!(s1p_split_off_n2, 14, s1::<S_SPLIT_OFF, true, 2>());
sh!(s1p_split_off_n4, 14, s1::<S_SPLIT_OFF, true, 4>());
sh!(s1p_drain_n2, 14, s1::<S_DRAIN, true, 2>());
sh!(s1p_drain_n4, 14, s1::<S_DRAIN, true, 4>());

/// from_utf8 accepts exactly the well-formed inputs (<= 3 bytes).
pub fn s2_from_utf8_body() {
    let mut back = Backing::<304>([0u8; 304]);
    unsafe {
        let c = small_chunk::<1>(back.0.as_mut_ptr(), 256, 200);
        let bump = mk_bump::<1>(c.footer, None);
        let raw: [u8; 4] = kani::any();
        let n: usize = kani::any();
        kani::assume(n <= 2);
        let mut b = [0u8; 5];
        let mut k = 0;
        while k < 4 {
            b[k] = raw[k];
            k += 1;
        }
        let mut v: BVec<u8> = BVec::with_capacity_in(4, &bump);
        k = 0;
        while k < n {
            v.push(b[k]);
            k += 1;
        }
        let r = BString::from_utf8(v);
        let want = spec_valid(&b, n);
        match r {
            Ok(s) => {
                vassert!(want, "NEVER: [C14] from_utf8 accepted ill-formed UTF-8");
                vassert!(s.len() == n, "NEVER: [C14] from_utf8 changed the length");
            }
            Err(e) => {
                vassert!(!want, "NEVER: [C14] from_utf8 rejected well-formed UTF-8");
                let (sv, _) = spec_first_chunk(&b, n);
                vassert!(e.utf8_error().valid_up_to() == sv, "NEVER: [C14] from_utf8 error: valid_up_to differs");
                vassert!(e.into_bytes().len() == n, "NEVER: [C14] from_utf8 error does not give the bytes back");
            }
        }
        kani::cover!(want && n == 2, "REACH: accepted two bytes");
        kani::cover!(!want && n == 2, "REACH: rejected two bytes");
    }
}
sh!(s2_from_utf8, 14, s2_from_utf8_body());

/// String::push of a character of CONCRETE width W (the character itself is symbolic for
/// W = 1, a fixed representative per width otherwise: with a symbolic multi-byte char the
/// encoded slice has a symbolic length and `Extend` explores the reallocation path — timeout).
/// Capacity is exactly N + W + SPARE: with SPARE = 0 the push must not move or regrow the
/// buffer ("a String with reserved capacity accepts that many bytes without moving", C18).
pub fn s1_pushw<const N: usize, const W: usize, const SPARE: usize>() {
    let mut back = Backing::<304>([0u8; 304]);
    unsafe {
        // the chunk has room for exactly the buffer: a push that reallocates although the capacity was
        // reserved cannot be served in place and reaches the (forbidden) global allocator stub, which
        // reports it and ends the path (exploring the in-chunk reallocation with its symbolic copies
        // took > 10 min under seed C18-D)
        let c = small_chunk::<1>(back.0.as_mut_ptr(), 256, N + W + SPARE);
        let bump = mk_bump::<1>(c.footer, None);
        let raw: [u8; 4] = kani::any();
        let n: usize = N;
        let mut b = [0u8; 5];
        let mut k = 0;
        while k < 4 {
            b[k] = raw[k];
            k += 1;
        }
        kani::assume(spec_valid(&b, n));
        let mut s = BString::with_capacity_in(N + W + SPARE, &bump);
        {
            let v = s.as_mut_vec();
            k = 0;
            while k < n {
                v.push(b[k]);
                k += 1;
            }
        }
        let p0 = s.as_ptr() as usize;
        let cap0 = s.capacity();
        // (a constructor that rounds the capacity up is fine; in this harness it would not find the room
        // and the path ends in the cut allocator stub: inconclusive, not a violation)
        vassert!(cap0 >= N + W + SPARE, "NEVER: [C18] with_capacity_in reserved less than the requested capacity");
        let ch: char = match W {
            1 => {
                let a: u8 = kani::any();
                kani::assume(a < 0x80);
                a as char
            }
            2 => '\u{e9}',
            3 => '\u{20ac}',
            _ => '\u{1d11e}',
        };
        let mut cb = [0u8; 4];
        let cl = ch.encode_utf8(&mut cb).len();
        FORBID_ALLOC = true;
        s.push(ch);
        FORBID_ALLOC = false;
        vassert!(s.len() == N + W, "NEVER: [C14] push: length differs from the reference model");
        let q: usize = kani::any();
        if q < N {
            vassert!(s.as_bytes()[q] == b[q], "NEVER: [C14] push changed the existing text");
        } else if q < N + W {
            vassert!(s.as_bytes()[q] == cb[q - N], "NEVER: [C14] push appended different bytes than the char's UTF-8 encoding");
        }
        vassert!(cl == W, "NEVER: harness: representative char has the wrong width");
        vassert!(s.as_ptr() as usize == p0, "NEVER: [C18] push moved a String that had the capacity reserved");
        vassert!(s.capacity() == cap0, "NEVER: [C18] push regrew a String that had the capacity reserved");
        kani::cover!(true, "REACH: end of harness");
    }
}
// (W = 1 with a symbolic ASCII char: `len_utf8()` stays symbolic and both arms are explored - > 20 min; ASCII push is Vec::push, family V1)
sh!(s1_pushw_n2_w2, 14, s1_pushw::<2, 2, 0>());
sh!(s1_pushw_n3_w3, 14, s1_pushw::<3, 3, 0>());
sh!(s1_pushw_n4_w4, 14, s1_pushw::<4, 4, 0>());
sh!(s1_pushw_n0_w4, 14, s1_pushw::<0, 4, 0>());
sh!(s1_pushw_n2_w2_s3, 14, s1_pushw::<2, 2, 3>());

/// String::replace_range with a CONCRETE range and replacement length; the text is any valid
/// UTF-8 of N bytes (contents symbolic, so the concrete range ends fall on or off character
/// boundaries depending on the text). `Vec::splice` with symbolic shapes is out of reach; these
/// shapes decide the bound arithmetic (inclusive/exclusive ends), the boundary checks and the
/// tail move for the instances listed. WANT_PANIC selects texts for which the range is illegal.
pub fn s1_replw<const N: usize, const I: usize, const J: usize, const INCL: bool, const RL: usize, const WANT_PANIC: bool>() {
    let mut back = Backing::<304>([0u8; 304]);
    unsafe {
        // finger 16 above the chunk start: after the 12-byte buffer (rounded to MIN_ALIGN 1) only 4 bytes
        // remain, so the reallocation path of `Drain::move_tail`'s `reserve` (never needed with
        // capacity 12) ends in the cut allocator stub instead of being explored with symbolic copies
        let c = small_chunk::<1>(back.0.as_mut_ptr(), 256, 16);
        let bump = mk_bump::<1>(c.footer, None);
        let raw: [u8; 4] = kani::any();
        let mut b = [0u8; 5];
        let mut k = 0;
        while k < 4 {
            b[k] = raw[k];
            k += 1;
        }
        kani::assume(spec_valid(&b, N));
        let e = if INCL { J + 1 } else { J };
        let legal = I <= e && e <= N && is_boundary(&b, N, I) && is_boundary(&b, N, e);
        if WANT_PANIC {
            kani::assume(!legal);
        } else {
            kani::assume(legal);
        }
        let mut s = BString::with_capacity_in(12, &bump);
        {
            let v = s.as_mut_vec();
            k = 0;
            while k < N {
                v.push(b[k]);
                k += 1;
            }
        }
        let rep: [u8; 3] = kani::any();
        kani::assume(rep[0] < 0x80 && rep[1] < 0x80 && rep[2] < 0x80);
        let t = core::str::from_utf8_unchecked(&rep[..RL]);
        if INCL {
            s.replace_range(I..=J, t);
        } else {
            s.replace_range(I..J, t);
        }
        if WANT_PANIC {
            kani::cover!(true, "NEVER: [C14] replace_range returned normally for a non-boundary or out-of-range range (std panics)");
        } else {
            let want = N - (e - I) + RL;
            vassert!(s.len() == want, "NEVER: [C14] replace_range: length differs from std's");
            let q: usize = kani::any();
            if q < I {
                vassert!(s.as_bytes()[q] == b[q], "NEVER: [C14] replace_range changed text before the range");
            } else if q < I + RL {
                vassert!(s.as_bytes()[q] == rep[q - I], "NEVER: [C14] replace_range: replacement text differs");
            } else if q < want {
                vassert!(s.as_bytes()[q] == b[q - RL + (e - I)], "NEVER: [C14] replace_range: text after the range differs");
            }
            kani::cover!(b[0] >= 0xC2, "INFO: text starts with a multi-byte character");
            kani::cover!(true, "REACH: end of harness");
        }
    }
}
// Only ranges that reach the END of the text are registered: with a non-empty tail
// (Drain::move_tail + fill) every instance tried ran past 10-25 min, like the Vec::splice ones.
sh!(s1_replw_incl_end, 14, s1_replw::<4, 2, 3, true, 1, false>());
sh!(s1_replw_excl_end, 14, s1_replw::<4, 2, 4, false, 2, false>());
sh!(s1_replw_all, 14, s1_replw::<3, 0, 3, false, 1, false>());
sh!(s1p_replw_incl_oob, 14, s1_replw::<3, 1, 3, true, 1, true>());
sh!(s1p_replw_excl_start, 14, s1_replw::<3, 1, 3, false, 1, true>());
