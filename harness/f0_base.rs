// F0 — base case: the real constructors establish the representation invariant
// (DESIGN §4.3), honour the requested capacity (C18) and refuse invalid minimum
// alignments (C04).
use super::common::*;
use crate::{Bump, ChunkFooter, FOOTER_SIZE};
use core::alloc::Layout;

pub fn f0_empty<const M: usize>() {
    unsafe {
        pool_reset(0);
        let b = Bump::<M>::with_min_align();
        vassert!(b.min_align() == M, "NEVER: [C04] min_align() differs from the configured minimum alignment");
        vassert!(b.current_chunk_footer.get() == empty_footer(), "NEVER: [C08] fresh arena is not chunk-less");
        vassert!(b.allocated_bytes() == 0 && b.allocated_bytes_including_metadata() == 0, "NEVER: [C08] fresh arena reports memory");
        vassert!(b.chunk_capacity() == 0, "NEVER: [C18] fresh arena reports capacity");
        vassert!(b.allocation_limit().is_none(), "NEVER: [C07] fresh arena has a limit");
        vassert!(NREQ == 0, "NEVER: [C03] constructing a chunk-less arena asked the global allocator");
        let z = Bump::<M>::try_with_min_align_and_capacity(0).unwrap();
        vassert!(z.current_chunk_footer.get() == empty_footer() && NREQ == 0, "NEVER: [C03,C18] capacity 0 obtained memory");
        drop(b);
        drop(z);
        vassert!(NFREE == 0 && !FOREIGN_FREE, "NEVER: [C03] dropping a chunk-less arena freed something (the static sentinel?)");
        vassert!(empty_is_pristine(), "NEVER: [C20] shared static sentinel modified");
        kani::cover!(true, "REACH: end of harness");
    }
}

/// Invalid minimum alignment: the constructor must not return.
pub fn f0_invalid<const M: usize>() {
    unsafe {
        REFUSING_CTOR = true;
    }
    let which: bool = kani::any();
    if which {
        let b = Bump::<M>::with_min_align();
        kani::cover!(true, "NEVER: with_min_align returned for an unsupported minimum alignment");
        core::mem::forget(b);
    } else {
        let c: usize = kani::any();
        let r = Bump::<M>::try_with_min_align_and_capacity(c);
        kani::cover!(true, "NEVER: try_with_min_align_and_capacity returned for an unsupported minimum alignment");
        core::mem::forget(r);
    }
}

/// Real constructor with a concrete capacity through A-pool (symbolic refusal).
pub fn f0_cap<const M: usize, const CAP: usize, const DISP: u8>() {
    unsafe {
        let mask: u8 = kani::any();
        pool_reset(mask);
        DISPLACE = DISP;
        let r = Bump::<M>::try_with_min_align_and_capacity(CAP);
        vassert!(empty_is_pristine(), "NEVER: [C20] shared static sentinel modified");
        match r {
            Ok(b) => {
                vassert!(NREC == 1 && NREQ == 1, "NEVER: [C03] constructor did not obtain exactly one block");
                let rec = LEDGER[0];
                let f = b.current_chunk_footer.get();
                let fa = f.as_ptr() as usize;
                // RI clause 1 / 4
                vassert!(f.as_ref().data.as_ptr() as usize == rec.ptr, "NEVER: [C03] chunk start is not the block obtained");
                vassert!(f.as_ref().layout.size() == rec.size && f.as_ref().layout.align() == rec.align, "NEVER: [C03] recorded layout differs from the requested one");
                vassert!(fa + FOOTER_SIZE == rec.ptr + rec.size, "NEVER: [C01] footer not at the end of the block");
                vassert!(fa & 15 == 0 && rec.align >= 16 && rec.align >= M, "NEVER: [C04] footer/chunk alignment");
                vassert!(f.as_ref().ptr.get().as_ptr() as usize == fa, "NEVER: [C10] fresh chunk's finger is not at the footer");
                vassert!(f.as_ref().prev.get() == empty_footer(), "NEVER: [C03] first chunk not linked to the sentinel");
                // C18 capacity honoured, C08 accounting
                vassert!(b.chunk_capacity() >= CAP, "NEVER: [C18] requested capacity not available");
                vassert!(b.chunk_capacity() == rec.size - FOOTER_SIZE, "NEVER: [C18] chunk_capacity of an empty chunk is not its usable size");
                vassert!(b.allocated_bytes() == rec.size - FOOTER_SIZE, "NEVER: [C08] allocated_bytes != usable bytes held");
                vassert!(b.allocated_bytes_including_metadata() == rec.size, "NEVER: [C08] including_metadata != bytes held");
                vassert!(b.allocation_limit().is_none() && b.min_align() == M, "NEVER: [C04,C07] constructor state");
                // C18: that many bytes can be served without more memory
                FORBID_ALLOC = true;
                let n = (CAP + (M - 1)) & !(M - 1);
                if n <= b.chunk_capacity() {
                    let p = b.try_alloc_layout(Layout::from_size_align(n, 1).unwrap());
                    vassert!(p.is_ok(), "NEVER: [C18] arena built with a capacity cannot serve that many bytes");
                }
                FORBID_ALLOC = false;
                drop(b);
                vassert!(NFREE == 1 && !FOREIGN_FREE && !DOUBLE_FREE && !LAYOUT_MISMATCH && ledger_live_count() == 0,
                        "NEVER: [C03] drop did not return exactly the block obtained");
                kani::cover!(true, "REACH: constructed");
            }
            Err(_) => {
                vassert!(NREC == 0 && NFREE == 0, "NEVER: [C03,C09] failed constructor leaked or freed a block");
                kani::cover!(NREQ == 1, "REACH: refused by the global allocator");
            }
        }
    }
}

/// Any capacity at full width, global allocator refusing: never panics (except the
/// documented size-overflow panic is NOT allowed for try_), at most one request.
pub fn f0_cap_any<const M: usize>() {
    unsafe {
        NLOG = 0;
        let c: usize = kani::any();
        let r = Bump::<M>::try_with_min_align_and_capacity(c);
        match r {
            Ok(b) => {
                vassert!(c == 0, "NEVER: [C09,C19] constructor succeeded although the global allocator refused");
                core::mem::forget(b);
            }
            Err(_) => {
                vassert!(NLOG <= 1, "NEVER: [C09] more than one request for the initial chunk");
                if NLOG == 1 {
                    let (rs, ra) = LOG[0];
                    vassert!(rs >= FOOTER_SIZE && rs - FOOTER_SIZE >= c, "NEVER: [C18,C19] initial chunk smaller than the requested capacity (wrapped?)");
                    vassert!(ra >= 16 && ra >= M, "NEVER: [C04] initial chunk alignment");
                    vassert!(rs <= isize::MAX as usize, "NEVER: [C19] request above isize::MAX reached the global allocator");
                }
                kani::cover!(NLOG == 0 && c > 0, "REACH: refused before asking (unrepresentable size)");
                kani::cover!(NLOG == 1 && c > (1 << 40), "REACH: huge capacity requested from the allocator");
            }
        }
        kani::cover!(true, "REACH: end of harness");
    }
}

macro_rules! f0e {
    ($name:ident, $m:expr) => {
        #[kani::proof]
        #[kani::unwind(5)]
        #[kani::stub(crate::core_alloc::alloc::alloc, alloc_pool)]
        #[kani::stub(crate::core_alloc::alloc::dealloc, dealloc_pool)]
        pub fn $name() {
            f0_empty::<$m>();
        }
    };
}
f0e!(f0_empty_m1, 1);
f0e!(f0_empty_m2, 2);
f0e!(f0_empty_m4, 4);
f0e!(f0_empty_m8, 8);
f0e!(f0_empty_m16, 16);

macro_rules! f0i {
    ($name:ident, $m:expr) => {
        #[kani::proof]
        #[kani::unwind(5)]
        #[kani::stub(crate::core_alloc::alloc::alloc, alloc_null)]
        #[kani::stub(crate::core_alloc::alloc::dealloc, dealloc_count)]
        pub fn $name() {
            f0_invalid::<$m>();
        }
    };
}
f0i!(f0_invalid_m0, 0);
f0i!(f0_invalid_m3, 3);
f0i!(f0_invalid_m32, 32);
f0i!(f0_invalid_m24, 24);

macro_rules! f0c {
    ($name:ident, $m:expr, $cap:expr, $disp:expr) => {
        #[kani::proof]
        #[kani::unwind(5)]
        #[kani::stub(crate::core_alloc::alloc::alloc, alloc_pool)]
        #[kani::stub(crate::core_alloc::alloc::dealloc, dealloc_pool)]
        pub fn $name() {
            f0_cap::<$m, $cap, $disp>();
        }
    };
}
f0c!(f0_cap_m1_c1_d0, 1, 1, 0);
f0c!(f0_cap_m1_c100_d1, 1, 100, 1);
f0c!(f0_cap_m8_c448_d3, 8, 448, 3);
f0c!(f0_cap_m16_c449_d1, 16, 449, 1);
f0c!(f0_cap_m2_c960_d0, 2, 960, 0);
f0c!(f0_cap_m4_c500_d1, 4, 500, 1);

macro_rules! f0a {
    ($name:ident, $m:expr) => {
        #[kani::proof]
        #[kani::unwind(5)]
        #[kani::stub(crate::core_alloc::alloc::alloc, alloc_null)]
        #[kani::stub(crate::core_alloc::alloc::dealloc, dealloc_count)]
        pub fn $name() {
            f0_cap_any::<$m>();
        }
    };
}
f0a!(f0_cap_any_m1, 1);
f0a!(f0_cap_any_m16, 16);

/// The static sentinel's address is the finger of every chunk-less arena, so it must be
/// aligned to every supported minimum alignment.  The only guarantee about a static's
/// address is the alignment of its type (CBMC itself places statics at 2^48-aligned
/// addresses, so the address cannot be observed here; the type's alignment can).
#[kani::proof]
pub fn f0_sentinel_align() {
    let a = core::mem::align_of_val(&crate::EMPTY_CHUNK);
    vassert!(a >= 16, "NEVER: [C04] static sentinel not guaranteed to be aligned to every supported minimum alignment (16)");
    vassert!(core::mem::size_of_val(&crate::EMPTY_CHUNK) >= FOOTER_SIZE, "NEVER: [C01] sentinel smaller than a footer");
    unsafe {
        vassert!(empty_is_pristine(), "NEVER: [C20] sentinel initial value");
    }
    kani::cover!(true, "REACH: end of harness");
}

/// Infallible twin of the constructor: when the global allocator refuses, `with_min_align_and_capacity(c)`
/// (c > 0) must not return, exactly where `try_with_min_align_and_capacity(c)` returns Err.
pub fn f0_ctor_twin<const M: usize>() {
    unsafe {
        NLOG = 0;
        let c: usize = kani::any();
        kani::assume(c > 0);
        let r = Bump::<M>::try_with_min_align_and_capacity(c);
        vassert!(r.is_err(), "NEVER: [C09] fallible constructor succeeded although the global allocator refused");
        core::mem::forget(r);
        let b = Bump::<M>::with_min_align_and_capacity(c);
        kani::cover!(true, "NEVER: [C09] with_min_align_and_capacity returned although try_with_min_align_and_capacity fails in the same situation");
        core::mem::forget(b);
    }
}
#[kani::proof]
#[kani::unwind(5)]
#[kani::stub(crate::core_alloc::alloc::alloc, alloc_null)]
#[kani::stub(crate::core_alloc::alloc::dealloc, dealloc_count)]
pub fn f0_ctor_twin_m1() {
    f0_ctor_twin::<1>();
}
#[kani::proof]
#[kani::unwind(5)]
#[kani::stub(crate::core_alloc::alloc::alloc, alloc_null)]
#[kani::stub(crate::core_alloc::alloc::dealloc, dealloc_count)]
pub fn f0_ctor_twin_m8() {
    f0_ctor_twin::<8>();
}
