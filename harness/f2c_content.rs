// F2-content — byte-level grow / grow_zeroed / shrink on small blocks (C02, C12):
// concrete 256-byte chunk and block position, symbolic sizes (old <= 8, new <= 16), symbolic
// contents, a 4-byte neighbour directly above the block.  Copies are the byte loops.
use super::common::*;
use crate::{Bump, FOOTER_SIZE};
use allocator_api2::alloc::Allocator;
use core::alloc::Layout;
use core::ptr::NonNull;

pub const C_GROW: u8 = 0;
pub const C_GROW_ZEROED: u8 = 1;
pub const C_SHRINK: u8 = 2;

pub fn f2c<const M: usize, const OP: u8, const LAST: bool>() {
    let mut back = Backing::<304>([0u8; 304]);
    unsafe {
        // layout of the chunk: [0,96) free | block at 96 (<= 8 bytes, slot of 16) | neighbour at 112..116 | ...
        // LAST: finger at the block (96); otherwise one more live block below it (finger at 80)
        let s_off: usize = 96;
        let finger: usize = if LAST { 96 } else { 80 };
        let c = small_chunk::<M>(back.0.as_mut_ptr(), 256, finger);
        let bump = mk_bump::<M>(c.footer, None);
        let base = c.base;
        let n_old: usize = kani::any();
        kani::assume(n_old <= 8);
        let old: [u8; 8] = kani::any();
        let nb: [u8; 4] = kani::any();
        let mut k = 0;
        while k < 8 {
            if k < n_old {
                *base.add(s_off + k) = old[k];
            }
            k += 1;
        }
        k = 0;
        while k < 4 {
            *base.add(112 + k) = nb[k];
            k += 1;
        }
        // poison the free space so that a missing zero-fill is visible
        k = 0;
        while k < 32 {
            *base.add(48 + k) = 0xAA;
            k += 1;
        }
        let a_old = any_pow2(0, 3);
        let a_new = any_pow2(0, 3);
        kani::assume(M <= 8 || a_old <= 16);
        let n_new: usize = kani::any();
        if OP == C_SHRINK {
            kani::assume(n_new <= n_old);
        } else {
            kani::assume(n_new >= n_old && n_new <= 16);
        }
        let ol = Layout::from_size_align(n_old, a_old).unwrap();
        let nl = Layout::from_size_align(n_new, a_new).unwrap();
        let sp = NonNull::new_unchecked(base.add(s_off));
        let a: &Bump<M> = &bump;
        let r = match OP {
            C_GROW => <&Bump<M> as Allocator>::grow(&a, sp, ol, nl),
            C_GROW_ZEROED => <&Bump<M> as Allocator>::grow_zeroed(&a, sp, ol, nl),
            _ => <&Bump<M> as Allocator>::shrink(&a, sp, ol, nl),
        };
        if let Ok(nn) = r {
            let p = nn.as_ptr() as *mut u8;
            vassert!(nn.len() >= n_new, "NEVER: [C12] returned slice shorter than requested");
            vassert!((p as usize) & (a_new - 1) == 0, "NEVER: [C04,C12] new alignment not honoured");
            let keep = if n_old < n_new { n_old } else { n_new };
            let j: usize = kani::any();
            if j < keep {
                vassert!(*p.add(j) == old[j], "NEVER: [C02,C12] grow/shrink did not preserve the first min(old,new) bytes");
            }
            if OP == C_GROW_ZEROED && j >= n_old && j < n_new {
                vassert!(*p.add(j) == 0, "NEVER: [C12] grow_zeroed left a non-zero byte in the added tail");
            }
            // neighbour untouched and not overlapped
            let q: usize = kani::any();
            if q < 4 {
                vassert!(*base.add(112 + q) == nb[q], "NEVER: [C02,C12] a neighbouring live block was modified");
            }
            let pa = p as usize - base as usize;
            vassert!(pa + n_new <= 112 || pa >= 116, "NEVER: [C01,C12] result overlaps the neighbouring live block");
            kani::cover!(p as usize != base as usize + s_off, "REACH: block moved");
            kani::cover!(OP == C_SHRINK || n_new > n_old, "REACH: really grown");
        }
        kani::cover!(true, "REACH: end of harness");
    }
}

macro_rules! f2c {
    ($name:ident, $m:expr, $op:expr, $last:expr) => {
        #[kani::proof]
        #[kani::unwind(34)]
        #[kani::stub(crate::core_alloc::alloc::alloc, alloc_cut)]
        #[kani::stub(crate::core_alloc::alloc::dealloc, dealloc_count)]
        #[kani::stub(core::ptr::copy_nonoverlapping, cno_loop)]
        #[kani::stub(core::ptr::copy, copy_loop)]
        pub fn $name() {
            f2c::<$m, $op, $last>();
        }
    };
}
f2c!(f2c_grow_last_m1, 1, C_GROW, true);
f2c!(f2c_grow_notlast_m1, 1, C_GROW, false);
f2c!(f2c_grow_zeroed_last_m1, 1, C_GROW_ZEROED, true);
f2c!(f2c_grow_zeroed_notlast_m1, 1, C_GROW_ZEROED, false);
f2c!(f2c_grow_zeroed_last_m8, 8, C_GROW_ZEROED, true);
f2c!(f2c_shrink_last_m1, 1, C_SHRINK, true);
f2c!(f2c_shrink_last_m4, 4, C_SHRINK, true);
