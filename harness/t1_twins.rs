// T1 — infallible twins (C09): two arenas built from the SAME symbolic parameters; the
// fallible method runs on the first, the infallible one on the second.  The infallible call
// returns exactly when the fallible one is Ok (then with the same placement), otherwise it
// does not return (its only failed check is the out-of-memory / size-overflow panic).
use super::common::*;
use crate::{Bump, FOOTER_SIZE};
use core::alloc::Layout;

pub fn t1_twin<const M: usize, const WHICH: u8>() {
    let mut back1 = Backing::<1072>([0u8; 1072]);
    let mut back2 = Backing::<1072>([0u8; 1072]);
    unsafe {
        NLOG = 0;
        let ca = any_pow2(4, 12);
        let r: usize = kani::any();
        kani::assume(r <= 1024 - 16 && r & (ca - 1) == 0);
        let off: usize = kani::any();
        kani::assume(off <= 1024 - r && off & (M - 1) == 0);
        let limit: Option<usize> = kani::any();
        let c1 = place_chunk::<M>(back1.0.as_mut_ptr(), 1024, r, off, ca, empty_footer(), true);
        let c2 = place_chunk::<M>(back2.0.as_mut_ptr(), 1024, r, off, ca, empty_footer(), true);
        let b1 = mk_bump::<M>(c1.footer, limit);
        let b2 = mk_bump::<M>(c2.footer, limit);
        let base1 = c1.base as usize;
        let base2 = c2.base as usize;
        match WHICH {
            0 => {
                let l = any_layout(12);
                match b1.try_alloc_layout(l) {
                    Ok(p1) => {
                        let p2 = b2.alloc_layout(l);
                        vassert!(p1.as_ptr() as usize - base1 == p2.as_ptr() as usize - base2, "NEVER: [C09] infallible twin placed the block differently from the fallible method");
                        kani::cover!(true, "REACH: both succeed");
                    }
                    Err(_) => {
                        kani::cover!(true, "REACH: fallible method failed");
                        let p2 = b2.alloc_layout(l);
                        kani::cover!(true, "NEVER: [C09] alloc_layout returned although try_alloc_layout fails in the same situation");
                        core::mem::forget(p2);
                    }
                }
            }
            1 => {
                let v: [u64; 4] = kani::any();
                match b1.try_alloc(v) {
                    Ok(p1) => {
                        let p2 = b2.alloc(v);
                        vassert!(p1 as *mut _ as usize - base1 == p2 as *mut _ as usize - base2 && p2[0] == v[0] && p2[3] == v[3], "NEVER: [C09] alloc and try_alloc disagree");
                        kani::cover!(true, "REACH: both succeed");
                    }
                    Err(_) => {
                        kani::cover!(true, "REACH: fallible method failed");
                        let p2 = b2.alloc(v);
                        kani::cover!(true, "NEVER: [C09] alloc returned although try_alloc fails in the same situation");
                        core::mem::forget(p2);
                    }
                }
            }
            _ => {
                let len: usize = kani::any();
                // lengths that fit a u16 slice in the chunk are initialised element by element
                // (loop): keep those tiny; everything else is refused before the loop
                kani::assume(len <= 2 || len > 1024);
                let x: u16 = kani::any();
                match b1.try_alloc_slice_fill_copy(len, x) {
                    Ok(s1) => {
                        let s2 = b2.alloc_slice_fill_copy(len, x);
                        vassert!(s1.as_ptr() as usize - base1 == s2.as_ptr() as usize - base2 && s2.len() == len, "NEVER: [C09] alloc_slice_fill_copy and its try_ twin disagree");
                        kani::cover!(true, "REACH: both succeed");
                    }
                    Err(_) => {
                        kani::cover!(true, "REACH: fallible method failed");
                        let s2 = b2.alloc_slice_fill_copy(len, x);
                        kani::cover!(true, "NEVER: [C09] alloc_slice_fill_copy returned although its try_ twin fails in the same situation");
                        core::mem::forget(s2);
                    }
                }
            }
        }
    }
}

macro_rules! t1 {
    ($name:ident, $m:expr, $w:expr) => {
        #[kani::proof]
        #[kani::unwind(6)]
        #[kani::stub(crate::core_alloc::alloc::alloc, alloc_null)]
        #[kani::stub(crate::core_alloc::alloc::dealloc, dealloc_count)]
        pub fn $name() {
            t1_twin::<$m, $w>();
        }
    };
}
t1!(t1_twin_layout_m1, 1, 0);
t1!(t1_twin_layout_m8, 8, 0);
t1!(t1_twin_value_m1, 1, 1);
t1!(t1_twin_value_m16, 16, 1);
t1!(t1_twin_slice_m1, 1, 2);
t1!(t1_twin_slice_m4, 4, 2);
