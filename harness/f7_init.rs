// F7 — initialisation glue of the allocation methods (C02) and the failed-initialiser
// protocol of the try_with / try_fill family (C11).  DESIGN §6 C02, C11.
use super::common::*;
use crate::{AllocOrInitError, Bump, ChunkFooter, FOOTER_SIZE};
use allocator_api2::alloc::Allocator;
use core::alloc::Layout;
use core::cell::Cell;
use core::mem::ManuallyDrop;
use core::ptr::NonNull;

pub static mut CALLS: usize = 0;
pub static mut CALL_LOG: [usize; 4] = [usize::MAX; 4];

unsafe fn calls_reset() {
    CALLS = 0;
    CALL_LOG = [usize::MAX; 4];
}
unsafe fn note_call(i: usize) {
    if CALLS < 4 {
        CALL_LOG[CALLS] = i;
    }
    CALLS += 1;
}

#[derive(Debug)]
pub struct E(pub u32, pub D);

// ---------------------------------------------------------------------------
// C11 (1)-(3): same-chunk case from an arbitrary state of a 256-byte chunk
// ---------------------------------------------------------------------------
pub fn f7_tw_same<const M: usize, const TRY: bool>() {
    let mut back = Backing::<304>([0u8; 304]);
    unsafe {
        drops_reset();
        calls_reset();
        FORBID_ALLOC = false;
        let c = sym_chunk::<M>(back.0.as_mut_ptr(), 256, empty_footer(), false);
        let bump = mk_bump::<M>(c.footer, None);
        let cap0 = bump.chunk_capacity();
        let ptr0 = c.ptr0 as usize;
        let data = c.data as usize;
        let fail: bool = kani::any();
        let v: u64 = kani::any();
        let code: u32 = kani::any();
        let f = || {
            note_call(0);
            if fail {
                Err(E(code, D(7)))
            } else {
                Ok(v)
            }
        };
        // normalise both entry points to Result<&mut u64, Option<E>> (None = allocation failure)
        let r: Result<&mut u64, Option<E>> = if TRY {
            match bump.try_alloc_try_with(f) {
                Ok(x) => Ok(x),
                Err(AllocOrInitError::Init(e)) => Err(Some(e)),
                Err(AllocOrInitError::Alloc(_)) => Err(None),
            }
        } else {
            bump.alloc_try_with(f).map_err(Some)
        };
        vassert!(empty_is_pristine(), "NEVER: [C20] shared static sentinel modified");
        match r {
            Ok(x) => {
                vassert!(CALLS == 1, "NEVER: [C02,C11] initialiser not called exactly once");
                vassert!(*x == v, "NEVER: [C02] value read back differs from what the initialiser returned");
                let p = x as *mut u64 as usize;
                vassert!(p & 7 == 0, "NEVER: [C04] requested alignment of the value not honoured");
                // NOTE: the reference points INSIDE the Result<T, E> slot (known finding D8 when M > align_of::<T>())
                vassert!(p >= data && p + 8 <= ptr0, "NEVER: [C01] value outside the former free region");
                vassert!(DROPS[7] == 0, "NEVER: [C11] error value materialised on success");
                kani::cover!(true, "REACH: initialiser succeeded");
                vassert!(p & (M - 1) == 0, "NEVER: [C04] reference returned by (try_)alloc_try_with not aligned to the minimum alignment");
            }
            Err(Some(e)) => {
                vassert!(CALLS == 1, "NEVER: [C11] initialiser not called exactly once");
                vassert!(fail, "NEVER: [C11] error reported although the initialiser succeeded");
                vassert!(e.0 == code, "NEVER: [C11] error payload differs from what the initialiser returned");
                vassert!(DROPS[7] == 0, "NEVER: [C11] error value dropped inside the arena (caller would drop it again)");
                drop(e);
                vassert!(DROPS[7] == 1, "NEVER: [C11] error value not delivered exactly once");
                // same chunk: everything is handed back, including alignment padding
                vassert!(bump.chunk_capacity() == cap0, "NEVER: [C11] space of the failed value not returned (capacity differs)");
                vassert!(c.cur_ptr() as usize == ptr0, "NEVER: [C11] finger not rewound to its position before the call");
                FORBID_ALLOC = true;
                let again = bump.try_alloc_layout(Layout::new::<Result<u64, E>>());
                FORBID_ALLOC = false;
                vassert!(again.is_ok(), "NEVER: [C11] follow-up request of the same layout not served from the current chunk");
                kani::cover!(true, "REACH: initialiser failed, error delivered");
                kani::cover!(M >= 8 || ptr0 & 7 != 0, "REACH: failed value had needed alignment padding");
            }
            Err(None) => {
                vassert!(TRY, "NEVER: [C09] infallible method returned an allocation error");
                vassert!(CALLS == 0, "NEVER: [C11] initialiser ran although space could not be reserved");
                vassert!(c.cur_ptr() as usize == ptr0, "NEVER: [C09] finger moved by a failed reservation");
                kani::cover!(true, "INFO: space could not be reserved");
            }
        }
    }
}

// ---------------------------------------------------------------------------
// C11 (4): new-chunk case (concrete geometry, A-pool): the Result slot forces a new
// chunk, the initialiser fails, a follow-up request of the same layout must be served
// without the global allocator.
// ---------------------------------------------------------------------------
pub fn f7_tw_newchunk<const M: usize, const TRY: bool, const MASK: u8>() {
    unsafe {
        drops_reset();
        calls_reset();
        // the first candidate (twice the current chunk) is refused, so that the chunk obtained is the
        // smallest one that holds the value: an exact fit
        // (symbolic: whether the first, doubled candidate is refused; which sizes the candidates have
        // is the crate's tuning, not a property, so nothing below depends on them)
        // (concrete per instance: a symbolic mask here ran out of memory)
        pool_reset(MASK);
        super::f6::CHUNK_ALIGN_OVERRIDE = 16;
        DISPLACE = 1;
        let cur = super::f6::build_list_at::<M, 1>(16); // 16 bytes free in a 448-byte chunk
        let bump = ManuallyDrop::new(Bump::<M> {
            current_chunk_footer: Cell::new(cur),
            allocation_limit: Cell::new(None),
        });
        let code: u32 = kani::any();
        // Result<T, E> is exactly the default chunk size (448 bytes): if anything less than the whole
        // slot is handed back, the follow-up request of the same layout cannot be served
        type T = [u64; 55];
        let f = || -> Result<T, E> {
            note_call(0);
            Err(E(code, D(3)))
        };
        let r: Result<(), Option<E>> = if TRY {
            match bump.try_alloc_try_with(f) {
                Ok(_) => Ok(()),
                Err(AllocOrInitError::Init(e)) => Err(Some(e)),
                Err(AllocOrInitError::Alloc(_)) => Err(None),
            }
        } else {
            bump.alloc_try_with(f).map(|_| ()).map_err(Some)
        };
        match r {
            Err(Some(e)) => {
                vassert!(CALLS == 1 && e.0 == code && DROPS[3] == 0, "NEVER: [C11] error not delivered intact exactly once");
                drop(e);
                vassert!(DROPS[3] == 1, "NEVER: [C11] error value not delivered exactly once");
                vassert!(NREC == 2, "NEVER: [C11] expected exactly one new chunk for the Result slot");
                kani::cover!(LEDGER[1].size == 448 + FOOTER_SIZE, "INFO: the new chunk fits the Result slot exactly");
                vassert!(NFREE == 0 && ledger_live_count() == 2, "NEVER: [C03] a chunk was given back to the global allocator by a &self operation (outside reset/drop)");
                // (before the follow-up request: a request that reaches the allocator ends the path)
                vassert!(bump.allocated_bytes_including_metadata() == ledger_live_bytes(), "NEVER: [C03,C08] after a failed initialiser the arena's accounting differs from the blocks it holds (chunk unlinked but not released?)");
                {
                    // the Result slot was the only block of the new chunk and is dead: chunk iteration
                    // yields [finger, footer) of every chunk, so the finger must be back at the footer
                    let nf = bump.current_chunk_footer.get();
                    let fp = nf.as_ref().ptr.get().as_ptr() as usize;
                    vassert!(fp >= nf.as_ref().data.as_ptr() as usize && fp <= nf.as_ptr() as usize,
                        "NEVER: [C01,C10,C11] finger of the newly acquired chunk lies outside that chunk after a failed initialiser");
                    vassert!(nf.as_ref().ptr.get().as_ptr() as usize == nf.as_ptr() as usize,
                        "NEVER: [C10,C11] after a failed initialiser the new chunk still reports allocated bytes (chunk iteration would yield the dead reservation)");
                }
                let nreq = NREQ;
                FORBID_ALLOC = true;
                let again = bump.try_alloc_layout(Layout::new::<Result<T, E>>());
                FORBID_ALLOC = false;
                vassert!(again.is_ok() && NREQ == nreq, "NEVER: [C11] follow-up request of the same layout went to the global allocator");
                vassert!(bump.allocated_bytes_including_metadata() == ledger_live_bytes(), "NEVER: [C08] accounting != bytes held");
                kani::cover!(true, "REACH: failed initialiser after a new chunk");
            }
            Err(None) => {
                // the global allocator refused what the arena asked for: nothing to claim here
                vassert!(CALLS == 0, "NEVER: [C11] initialiser ran although space could not be reserved");
                kani::cover!(true, "INFO: allocation refused");
            }
            Ok(()) => {
                vassert!(false, "NEVER: [C11] failing initialiser did not produce Err(Init)");
            }
        }
    }
}

// ---------------------------------------------------------------------------
// C11 (5): the initialiser allocates in the arena, keeps or releases the block, then fails
// ---------------------------------------------------------------------------
pub fn f7_tw_nested<const M: usize, const RELEASE: bool>() {
    let mut back = Backing::<304>([0u8; 304]);
    unsafe {
        calls_reset();
        drops_reset();
        let off: usize = if M == 16 { 208 } else { 200 };
        let c = small_chunk::<M>(back.0.as_mut_ptr(), 256, off);
        let bump = mk_bump::<M>(c.footer, None);
        let cap0 = bump.chunk_capacity();
        let val: u32 = kani::any();
        let mut kept: *mut u32 = core::ptr::null_mut();
        let b: &Bump<M> = &bump;
        let kp = &mut kept as *mut *mut u32;
        let r: Result<&mut u64, u32> = b.alloc_try_with(|| {
            note_call(0);
            let k = b.alloc(val);
            let kptr = k as *mut u32;
            if RELEASE {
                <&Bump<M> as Allocator>::deallocate(&b, NonNull::new_unchecked(kptr as *mut u8), Layout::new::<u32>());
            } else {
                *kp = kptr;
            }
            Err(9)
        });
        vassert!(r.is_err() && CALLS == 1, "NEVER: [C11] failing initialiser did not produce its error");
        let ptr1 = c.cur_ptr() as usize;
        let foot = c.footer as usize;
        vassert!(ptr1 >= c.data as usize && ptr1 <= foot && ptr1 & (M - 1) == 0, "NEVER: [C01] finger invalid after the failed call");
        if RELEASE {
            vassert!(bump.chunk_capacity() == cap0, "NEVER: [C11] space not reusable although the initialiser released what it allocated");
        } else {
            let k = kept as usize;
            vassert!(k >= ptr1 && k + 4 <= foot, "NEVER: [C01,C10,C11] block kept by the initialiser is no longer in the allocated region (not covered by chunk iteration, will be handed out again)");
            vassert!(*kept == val, "NEVER: [C02,C11] block kept by the initialiser was modified");
            // and a later allocation does not overlap it
            let p = bump.try_alloc_layout(Layout::new::<u64>());
            if let Ok(p) = p {
                let p = p.as_ptr() as usize;
                vassert!(p + 8 <= k || k + 4 <= p, "NEVER: [C01,C11] later allocation overlaps the block kept by the initialiser");
            }
            vassert!(*kept == val, "NEVER: [C02] kept block changed by a later allocation");
        }
        kani::cover!(true, "REACH: end of harness");
    }
}

// ---------------------------------------------------------------------------
// C11/C02: try_fill slices
// ---------------------------------------------------------------------------
pub fn f7_try_fill<const M: usize, const ITER: bool, const USABLE: usize>() {
    let mut back = Backing::<304>([0u8; 304]);
    unsafe {
        calls_reset();
        let off: usize = kani::any();
        kani::assume(off == USABLE || off == 100 || off == 16 || off == 0);
        kani::assume(off & (M - 1) == 0 && off <= USABLE);
        // USABLE = 16: a chunk that holds the slice once but not twice (the reservation must
        // really be handed back for the follow-up request to be served)
        let c = small_chunk::<M>(back.0.as_mut_ptr(), USABLE, off);
        let bump = mk_bump::<M>(c.footer, None);
        let cap0 = bump.chunk_capacity();
        let len: usize = kani::any();
        kani::assume(len <= 3);
        let fail_at: usize = kani::any(); // >= len: no failure
        let base: u32 = kani::any();
        kani::assume(base < 1000);
        let code: u32 = kani::any();
        let g = |i: usize| -> Result<u32, u32> {
            note_call(i);
            if i == fail_at {
                Err(code)
            } else {
                Ok(base + i as u32)
            }
        };
        let r: Result<&mut [u32], u32> = if ITER {
            let items: [Result<u32, u32>; 3] = [
                if 0 == fail_at { Err(code) } else { Ok(base) },
                if 1 == fail_at { Err(code) } else { Ok(base + 1) },
                if 2 == fail_at { Err(code) } else { Ok(base + 2) },
            ];
            kani::assume(len == 3);
            bump.alloc_slice_try_fill_iter(items)
        } else {
            bump.alloc_slice_try_fill_with(len, g)
        };
        match r {
            Ok(s) => {
                vassert!(fail_at >= len, "NEVER: [C11] success although the initialiser failed");
                vassert!(s.len() == len, "NEVER: [C02] slice length differs from the request");
                let i: usize = kani::any();
                if i < len {
                    vassert!(s[i] == base + i as u32, "NEVER: [C02] element differs from what the initialiser returned");
                    if !ITER {
                        vassert!(CALL_LOG[i] == i, "NEVER: [C02] initialiser not called in index order");
                    }
                }
                if !ITER {
                    vassert!(CALLS == len, "NEVER: [C02] initialiser not called once per element");
                }
                let p = s.as_ptr() as usize;
                vassert!(p & 3 == 0 && p & (M - 1) == 0, "NEVER: [C04] slice alignment");
                kani::cover!(len == 3, "REACH: three elements initialised");
                kani::cover!(ITER || len == 0, "REACH: empty slice");
            }
            Err(e) => {
                vassert!(fail_at < len && e == code, "NEVER: [C11] error differs from what the initialiser returned");
                if !ITER {
                    vassert!(CALLS == fail_at + 1, "NEVER: [C11] initialiser called after it failed");
                }
                // the reservation is reusable: same layout again without the global allocator
                FORBID_ALLOC = true;
                let again = bump.try_alloc_layout(Layout::array::<u32>(len).unwrap());
                FORBID_ALLOC = false;
                vassert!(again.is_ok(), "NEVER: [C11] follow-up request of the same layout not served from the current chunk");
                kani::cover!(fail_at == 0, "REACH: first element failed");
                kani::cover!(fail_at == 2, "REACH: last element failed");
            }
        }
    }
}

// ---------------------------------------------------------------------------
// C11/C02: try_fill whose initialiser allocates in the same arena and keeps the block
// ---------------------------------------------------------------------------
pub fn f7_try_fill_nested<const M: usize>() {
    let mut back = Backing::<304>([0u8; 304]);
    unsafe {
        calls_reset();
        let off: usize = if M == 16 { 208 } else { 200 };
        let c = small_chunk::<M>(back.0.as_mut_ptr(), 256, off);
        let bump = mk_bump::<M>(c.footer, None);
        let b: &Bump<M> = &bump;
        let val: u32 = kani::any();
        let fail_at: usize = kani::any();
        kani::assume(fail_at >= 1 && fail_at <= 3);
        let mut kept: *mut u32 = core::ptr::null_mut();
        let kp = &mut kept as *mut *mut u32;
        let r: Result<&mut [u32], u32> = b.alloc_slice_try_fill_with(3, |i| {
            note_call(i);
            if i == 0 {
                *kp = b.alloc(val) as *mut u32;
            }
            if i == fail_at {
                Err(7)
            } else {
                Ok(i as u32)
            }
        });
        let ptr1 = c.cur_ptr() as usize;
        let foot = c.footer as usize;
        let k = kept as usize;
        vassert!(k != 0 && k >= ptr1 && k + 4 <= foot, "NEVER: [C01,C02,C10,C11] block allocated and kept by a slice initialiser is no longer in the allocated region");
        vassert!(*kept == val, "NEVER: [C02,C11] block kept by a slice initialiser was modified");
        let p = bump.try_alloc_layout(Layout::new::<[u32; 3]>());
        if let Ok(p) = p {
            let p = p.as_ptr() as usize;
            vassert!(p + 12 <= k || k + 4 <= p, "NEVER: [C01,C02,C11] later allocation overlaps the block kept by a slice initialiser");
        }
        let was_ok = r.is_ok();
        if let Ok(s) = r {
            let sp = s.as_ptr() as usize;
            vassert!(fail_at == 3, "NEVER: [C11] success although the initialiser failed");
            vassert!(sp + 12 <= k || k + 4 <= sp, "NEVER: [C01] slice overlaps the block its initialiser allocated");
        }
        kani::cover!(!was_ok, "REACH: slice initialiser failed after allocating");
        kani::cover!(was_ok, "REACH: slice initialiser succeeded after allocating");
    }
}

/// C11/C01/C10: the Result slot forces a new chunk, the initialiser allocates in the arena
/// (lands in the new chunk), keeps the block and fails: the kept block must stay allocated.
pub fn f7_tw_newchunk_nested<const M: usize, const TRY: bool>() {
    unsafe {
        drops_reset();
        calls_reset();
        pool_reset(0);
        super::f6::CHUNK_ALIGN_OVERRIDE = 16;
        DISPLACE = 0;
        let cur = super::f6::build_list_at::<M, 1>(16);
        let bump = ManuallyDrop::new(Bump::<M> {
            current_chunk_footer: Cell::new(cur),
            allocation_limit: Cell::new(None),
        });
        let b: &Bump<M> = &bump;
        let val: u32 = kani::any();
        let mut kept: *mut u32 = core::ptr::null_mut();
        let kp = &mut kept as *mut *mut u32;
        type T = [u8; 200];
        let f = || -> Result<T, u32> {
            note_call(0);
            // the nested allocation fits the freshly acquired chunk: the global allocator is out of
            // the picture for it (leaving it reachable ran out of memory)
            FORBID_ALLOC = true;
            *kp = b.alloc(val) as *mut u32;
            FORBID_ALLOC = false;
            Err(5)
        };
        let failed = if TRY { b.try_alloc_try_with(f).is_err() } else { b.alloc_try_with(f).is_err() };
        vassert!(failed && CALLS == 1, "NEVER: [C11] failing initialiser did not produce its error");
        vassert!(NREC == 2, "NEVER: [C11] expected exactly one new chunk");
        let nf = bump.current_chunk_footer.get();
        let fp = nf.as_ref().ptr.get().as_ptr() as usize;
        let fa = nf.as_ptr() as usize;
        let k = kept as usize;
        vassert!(k >= fp && k + 4 <= fa, "NEVER: [C01,C10,C11] block kept by the initialiser (in the newly acquired chunk) is no longer in the allocated region");
        vassert!(*kept == val, "NEVER: [C02,C11] block kept by the initialiser was modified");
        let p = bump.try_alloc_layout(Layout::new::<u64>());
        if let Ok(p) = p {
            let p = p.as_ptr() as usize;
            vassert!(p + 8 <= k || k + 4 <= p, "NEVER: [C01,C11] later allocation overlaps the block kept by the initialiser");
        }
        kani::cover!(true, "REACH: end of harness");
    }
}

/// C11/C10: a try_fill slice that forces a new chunk and then fails.
pub fn f7_try_fill_newchunk<const M: usize>() {
    unsafe {
        calls_reset();
        pool_reset(0);
        super::f6::CHUNK_ALIGN_OVERRIDE = 16;
        DISPLACE = 0;
        let cur = super::f6::build_list_at::<M, 1>(0); // current chunk is full
        let bump = ManuallyDrop::new(Bump::<M> {
            current_chunk_footer: Cell::new(cur),
            allocation_limit: Cell::new(None),
        });
        let fail_at: usize = kani::any();
        kani::assume(fail_at <= 2);
        let r: Result<&mut [u32], u32> = bump.alloc_slice_try_fill_with(3, |i| {
            note_call(i);
            if i == fail_at {
                Err(3)
            } else {
                Ok(i as u32)
            }
        });
        vassert!(r.is_err() && NREC == 2, "NEVER: [C11] expected a failed fill in a newly acquired chunk");
        let nf = bump.current_chunk_footer.get();
        let fp = nf.as_ref().ptr.get().as_ptr() as usize;
        let fa = nf.as_ptr() as usize;
        let fd = nf.as_ref().data.as_ptr() as usize;
        vassert!(fp >= fd && fp <= fa && fp & (M - 1) == 0, "NEVER: [C01,C10,C11] finger of the new chunk is outside its chunk after a failed fill");
        vassert!(nf.as_ref().prev.get() == cur && cur.as_ref().ptr.get().as_ptr() as usize == cur.as_ref().data.as_ptr() as usize,
                 "NEVER: [C10,C11] the previous chunk was changed by a failed fill in the new chunk");
        let nreq = NREQ;
        FORBID_ALLOC = true;
        let again = bump.try_alloc_layout(Layout::array::<u32>(3).unwrap());
        FORBID_ALLOC = false;
        vassert!(again.is_ok() && NREQ == nreq, "NEVER: [C11] follow-up request of the same layout went to the global allocator");
        if let Ok(p) = again {
            let p = p.as_ptr() as usize;
            vassert!(p >= fd && p + 12 <= fa, "NEVER: [C01,C11] follow-up block outside the current chunk");
        }
        let mut n = 0usize;
        for (p, len) in bump.iter_allocated_chunks_raw() {
            if n == 0 {
                vassert!(p as usize >= fd && p as usize + len <= fa, "NEVER: [C10] newest slice yielded by chunk iteration is not inside the newest chunk");
            }
            n += 1;
        }
        vassert!(n == 2, "NEVER: [C10] chunk iteration does not yield both chunks");
        kani::cover!(true, "REACH: end of harness");
    }
}

// ---------------------------------------------------------------------------
// C02: initialisation of single values and slices (concrete small chunk, symbolic values)
// ---------------------------------------------------------------------------
pub struct CountIter {
    pub next: u32,
    pub left: usize,
}
impl Iterator for CountIter {
    type Item = u32;
    fn next(&mut self) -> Option<u32> {
        if self.left == 0 {
            return None;
        }
        self.left -= 1;
        let v = self.next;
        self.next += 1;
        unsafe { note_call(v as usize) };
        Some(v)
    }
    fn size_hint(&self) -> (usize, Option<usize>) {
        (self.left, Some(self.left))
    }
}
impl ExactSizeIterator for CountIter {}

pub fn f7_init<const M: usize, const WHICH: u8>() {
    let mut back = Backing::<304>([0u8; 304]);
    unsafe {
        calls_reset();
        let off: usize = kani::any();
        kani::assume(off == 256 || off == 101 * M || off == 16);
        kani::assume(off & (M - 1) == 0 && off <= 256);
        let c = small_chunk::<M>(back.0.as_mut_ptr(), 256, off);
        let bump = mk_bump::<M>(c.footer, None);
        let len: usize = kani::any();
        kani::assume(len <= 3);
        let i: usize = kani::any();
        let tryv: bool = kani::any();
        let src: [u32; 3] = kani::any();
        let srcb: [u8; 3] = kani::any();
        let v: u32 = kani::any();
        let ptr0 = c.ptr0 as usize;
        let data = c.data as usize;
        match WHICH {
            0 => {
                // alloc / alloc_with / try_alloc / try_alloc_with
                let w: u8 = kani::any();
                let r: &mut u32 = match w & 3 {
                    0 => bump.alloc(v),
                    1 => bump.alloc_with(|| {
                        note_call(0);
                        v
                    }),
                    2 => match bump.try_alloc(v) {
                        Ok(r) => r,
                        Err(_) => return,
                    },
                    _ => match bump.try_alloc_with(|| {
                        note_call(0);
                        v
                    }) {
                        Ok(r) => r,
                        Err(_) => return,
                    },
                };
                vassert!(*r == v, "NEVER: [C02] value read back differs from what was supplied");
                vassert!(w & 1 == 0 || CALLS == 1, "NEVER: [C02] initialiser not called exactly once");
                let p = r as *mut u32 as usize;
                vassert!(p & 3 == 0 && p & (M - 1) == 0 && p >= data && p + 4 <= ptr0, "NEVER: [C01,C04] placement of the value");
                kani::cover!(w & 3 == 3, "REACH: [values] try_alloc_with");
            }
            1 => {
                // alloc_slice_copy / try_alloc_slice_copy (u32) and alloc_str / try_alloc_str
                let r: &mut [u32] = if tryv {
                    match bump.try_alloc_slice_copy(&src[..len]) {
                        Ok(r) => r,
                        Err(_) => return,
                    }
                } else {
                    bump.alloc_slice_copy(&src[..len])
                };
                vassert!(r.len() == len, "NEVER: [C02] slice length differs");
                if i < len {
                    vassert!(r[i] == src[i], "NEVER: [C02] copied element differs from the source");
                }
                let p = r.as_ptr() as usize;
                vassert!(p & 3 == 0 && p >= data && p + 4 * len <= ptr0, "NEVER: [C01,C04] placement of the slice");
                kani::cover!(len == 3, "REACH: [copy] three elements copied");
            }
            2 => {
                // alloc_str / try_alloc_str, ASCII content (any 7-bit bytes are valid UTF-8)
                kani::assume(srcb[0] < 128 && srcb[1] < 128 && srcb[2] < 128);
                let s = core::str::from_utf8(&srcb[..len]).unwrap();
                let r: &mut str = if tryv {
                    match bump.try_alloc_str(s) {
                        Ok(r) => r,
                        Err(_) => return,
                    }
                } else {
                    bump.alloc_str(s)
                };
                vassert!(r.len() == len, "NEVER: [C02] string length differs");
                if i < len {
                    vassert!(r.as_bytes()[i] == srcb[i], "NEVER: [C02] string byte differs from the source");
                }
                kani::cover!(len == 3, "REACH: [str] three bytes copied");
            }
            3 => {
                // alloc_slice_clone / try_alloc_slice_clone
                let r: &mut [u32] = if tryv {
                    match bump.try_alloc_slice_clone(&src[..len]) {
                        Ok(r) => r,
                        Err(_) => return,
                    }
                } else {
                    bump.alloc_slice_clone(&src[..len])
                };
                vassert!(r.len() == len, "NEVER: [C02] slice length differs");
                if i < len {
                    vassert!(r[i] == src[i], "NEVER: [C02] cloned element differs from the source");
                }
                kani::cover!(len == 3, "REACH: [clone] three elements cloned");
            }
            4 => {
                // alloc_slice_fill_with / try_alloc_slice_fill_with: once per element, in index order
                let f = |k: usize| {
                    note_call(k);
                    src[k % 3].wrapping_add(k as u32)
                };
                let r: &mut [u32] = if tryv {
                    match bump.try_alloc_slice_fill_with(len, f) {
                        Ok(r) => r,
                        Err(_) => return,
                    }
                } else {
                    bump.alloc_slice_fill_with(len, f)
                };
                vassert!(r.len() == len && CALLS == len, "NEVER: [C02] initialiser not called once per element");
                if i < len {
                    vassert!(CALL_LOG[i] == i, "NEVER: [C02] initialiser not called in index order");
                    vassert!(r[i] == src[i % 3].wrapping_add(i as u32), "NEVER: [C02] element differs from what the initialiser returned");
                }
                kani::cover!(len == 3, "REACH: [fill_with] three elements filled");
            }
            5 => {
                // fill_copy / fill_clone / fill_default and try_ twins
                let w: u8 = kani::any();
                let r: &mut [u32] = match w % 6 {
                    0 => bump.alloc_slice_fill_copy(len, v),
                    1 => bump.alloc_slice_fill_clone(len, &v),
                    2 => bump.alloc_slice_fill_default(len),
                    3 => match bump.try_alloc_slice_fill_copy(len, v) {
                        Ok(r) => r,
                        Err(_) => return,
                    },
                    4 => match bump.try_alloc_slice_fill_clone(len, &v) {
                        Ok(r) => r,
                        Err(_) => return,
                    },
                    _ => match bump.try_alloc_slice_fill_default(len) {
                        Ok(r) => r,
                        Err(_) => return,
                    },
                };
                vassert!(r.len() == len, "NEVER: [C02] slice length differs");
                if i < len {
                    let want = if w % 3 == 2 { 0 } else { v };
                    vassert!(r[i] == want, "NEVER: [C02] filled element differs from the value supplied");
                }
                kani::cover!(len == 3 && w % 6 == 4, "REACH: [fill_val] try fill clone, three elements");
            }
            _ => {
                // alloc_slice_fill_iter / try_alloc_slice_fill_iter: the iterator is consumed in order
                kani::assume(v < 1000);
                let it = CountIter { next: v, left: len };
                let r: &mut [u32] = if tryv {
                    match bump.try_alloc_slice_fill_iter(it) {
                        Ok(r) => r,
                        Err(_) => return,
                    }
                } else {
                    bump.alloc_slice_fill_iter(it)
                };
                vassert!(r.len() == len && CALLS == len, "NEVER: [C02] iterator not advanced once per element");
                if i < len {
                    vassert!(r[i] == v + i as u32, "NEVER: [C02] iterator items not stored in order");
                    vassert!(CALL_LOG[i] == (v as usize) + i, "NEVER: [C02] iterator not consumed in order");
                }
                kani::cover!(len == 3, "REACH: [fill_iter] three items taken from the iterator");
            }
        }
        // finger stays valid and nothing else in the footer changed
        let p1 = c.cur_ptr() as usize;
        vassert!(p1 >= data && p1 <= ptr0 && p1 & (M - 1) == 0, "NEVER: [C01,C04] finger invalid after the allocation");
        kani::cover!(true, "REACH: end of harness");
    }
}

macro_rules! f7cut {
    ($name:ident, $unwind:expr, $body:expr) => {
        #[kani::proof]
        #[kani::unwind($unwind)]
        #[kani::stub(crate::core_alloc::alloc::alloc, alloc_cut)]
        #[kani::stub(crate::core_alloc::alloc::dealloc, dealloc_count)]
        #[kani::stub(core::ptr::copy_nonoverlapping, cno_loop)]
        pub fn $name() {
            $body
        }
    };
}
macro_rules! f7null {
    ($name:ident, $unwind:expr, $body:expr) => {
        #[kani::proof]
        #[kani::unwind($unwind)]
        #[kani::stub(crate::core_alloc::alloc::alloc, alloc_null)]
        #[kani::stub(crate::core_alloc::alloc::dealloc, dealloc_count)]
        pub fn $name() {
            $body
        }
    };
}
macro_rules! f7pool {
    ($name:ident, $unwind:expr, $body:expr) => {
        #[kani::proof]
        #[kani::unwind($unwind)]
        #[kani::stub(crate::core_alloc::alloc::alloc, alloc_pool)]
        #[kani::stub(crate::core_alloc::alloc::dealloc, dealloc_pool)]
        pub fn $name() {
            $body
        }
    };
}

// same-chunk: under A-null so that "space cannot be reserved" is reachable for the try_ variant
f7null!(f7_tw_same_try_m1, 6, f7_tw_same::<1, true>());
f7null!(f7_tw_same_try_m8, 6, f7_tw_same::<8, true>());
f7null!(f7_tw_same_try_m16, 6, f7_tw_same::<16, true>());
f7cut!(f7_tw_same_inf_m1, 6, f7_tw_same::<1, false>());
f7cut!(f7_tw_same_inf_m16, 6, f7_tw_same::<16, false>());
f7pool!(f7_tw_newchunk_try_m8, 5, f7_tw_newchunk::<8, true, 1>());
f7pool!(f7_tw_newchunk_inf_m16, 5, f7_tw_newchunk::<16, false, 1>());
f7pool!(f7_tw_newchunk_inf_m16_first, 5, f7_tw_newchunk::<16, false, 0>());
f7pool!(f7_tw_newchunk_nested_inf_m16, 8, f7_tw_newchunk_nested::<16, false>());
f7pool!(f7_tw_newchunk_nested_try_m4, 8, f7_tw_newchunk_nested::<4, true>());
f7pool!(f7_try_fill_newchunk_m4, 8, f7_try_fill_newchunk::<4>());
f7pool!(f7_try_fill_newchunk_m16, 8, f7_try_fill_newchunk::<16>());
f7cut!(f7_tw_nested_keep_m1, 6, f7_tw_nested::<1, false>());
f7cut!(f7_tw_nested_keep_m16, 6, f7_tw_nested::<16, false>());
f7cut!(f7_tw_nested_release_m1, 6, f7_tw_nested::<1, true>());
f7cut!(f7_tw_nested_release_m8, 6, f7_tw_nested::<8, true>());
f7cut!(f7_try_fill_with_m1, 6, f7_try_fill::<1, false, 256>());
f7cut!(f7_try_fill_with_tiny_m1, 6, f7_try_fill::<1, false, 16>());
f7cut!(f7_try_fill_with_tiny_m8, 6, f7_try_fill::<8, false, 16>());
f7cut!(f7_try_fill_with_m8, 6, f7_try_fill::<8, false, 256>());
f7cut!(f7_try_fill_nested_m1, 6, f7_try_fill_nested::<1>());
f7cut!(f7_try_fill_nested_m16, 6, f7_try_fill_nested::<16>());
f7cut!(f7_try_fill_iter_m1, 6, f7_try_fill::<1, true, 256>());
f7cut!(f7_init_values_m1, 6, f7_init::<1, 0>());
f7cut!(f7_init_values_m8, 6, f7_init::<8, 0>());
f7cut!(f7_init_copy_m1, 14, f7_init::<1, 1>());
f7cut!(f7_init_copy_m16, 14, f7_init::<16, 1>());
f7cut!(f7_init_str_m1, 8, f7_init::<1, 2>());
f7cut!(f7_init_clone_m1, 6, f7_init::<1, 3>());
f7cut!(f7_init_fill_with_m1, 6, f7_init::<1, 4>());
f7cut!(f7_init_fill_with_m4, 6, f7_init::<4, 4>());
f7cut!(f7_init_fill_val_m1, 6, f7_init::<1, 5>());
f7cut!(f7_init_fill_iter_m1, 6, f7_init::<1, 6>());
f7cut!(f7_init_fill_iter_m2, 6, f7_init::<2, 6>());
