// Shared models, monitors and the symbolic state builder (DESIGN §3, §4).
use crate::{Bump, ChunkFooter, EMPTY_CHUNK, FOOTER_SIZE};
use core::alloc::Layout;
use core::cell::Cell;
use core::mem::ManuallyDrop;
use core::ptr::{self, NonNull};

// ---------------------------------------------------------------------------
// Global allocator models (stubs of core_alloc::alloc::{alloc, dealloc})
// ---------------------------------------------------------------------------

pub const LOGN: usize = 12;
pub static mut LOG: [(usize, usize); LOGN] = [(0, 0); LOGN];
pub static mut NLOG: usize = 0;
pub static mut NDEALLOC: usize = 0;

/// A-cut: paths that need the global allocator are outside the harness's bound.
pub unsafe fn alloc_cut(_l: Layout) -> *mut u8 {
    if FORBID_ALLOC {
        vassert!(false, "NEVER: [C06,C11,C18] a request that must be served from the current chunk went to the global allocator");
    }
    kani::assume(false);
    ptr::null_mut()
}

/// A-null: the global allocator refuses everything; requests are logged.
pub unsafe fn alloc_null(l: Layout) -> *mut u8 {
    if FORBID_ALLOC {
        vassert!(false, "NEVER: [C06,C11,C18] a request that must be served from the current chunk went to the global allocator");
    }
    if REFUSING_CTOR {
        vassert!(false, "NEVER: [C03,C04] a constructor that must refuse its minimum alignment obtained memory first (nothing owns the block when it panics: leak)");
    }
    if NLOG < LOGN {
        LOG[NLOG] = (l.size(), l.align());
    }
    NLOG += 1;
    ptr::null_mut()
}
/// Set by harnesses in which the constructor must panic (unsupported MIN_ALIGN).
pub static mut REFUSING_CTOR: bool = false;

/// dealloc that only counts (for `&self` operations, which must never free).
pub unsafe fn dealloc_count(_p: *mut u8, _l: Layout) {
    NDEALLOC += 1;
}

// ---------------------------------------------------------------------------
// Symbolic chunk builder (DESIGN §4.2): concrete backing object, footer at a
// CONCRETE offset, symbolic chunk start.
// ---------------------------------------------------------------------------

// (no align(4096): it would pad the object to 4096 bytes; CBMC object bases are
// aligned to 2^48 anyway)
#[repr(C, align(16))]
pub struct Backing<const TOTAL: usize>(pub [u8; TOTAL]);

#[derive(Clone, Copy)]
pub struct Chunk {
    pub base: *mut u8,
    pub data: *mut u8,
    pub footer: *mut ChunkFooter,
    pub ptr0: *mut u8,
    pub usable: usize,
    pub chunk_align: usize,
}

impl Chunk {
    #[inline(always)]
    pub fn footer_addr(&self) -> usize {
        self.footer as usize
    }
    #[inline(always)]
    pub unsafe fn cur_ptr(&self) -> *mut u8 {
        (*self.footer).ptr.get().as_ptr()
    }
}

pub fn empty_footer() -> NonNull<ChunkFooter> {
    EMPTY_CHUNK.get()
}

/// A symbolic power of two 2^k with lo <= k <= hi.
#[inline(always)]
pub fn any_pow2(lo: u32, hi: u32) -> usize {
    let k: u32 = kani::any();
    kani::assume(k >= lo && k <= hi);
    1usize << k
}

/// Any valid `Layout` with align <= 2^max_k (size is any value `Layout` accepts).
#[inline(always)]
pub fn any_layout(max_k: u32) -> Layout {
    let size: usize = kani::any();
    let align = any_pow2(0, max_k);
    match Layout::from_size_align(size, align) {
        Ok(l) => l,
        Err(_) => {
            kani::assume(false);
            unreachable!()
        }
    }
}

/// Build a chunk inside `base[0 .. end + FOOTER_SIZE)`: footer at the concrete
/// offset `end`, chunk start at the symbolic offset `r` (multiple of the
/// symbolic chunk alignment 16..4096), bump pointer anywhere in the chunk on a
/// multiple of M.  `prev`/`prev_allocated` describe the rest of the list.
/// This is RI clause 1 (+ clause 3 when `exact_accounting`).
pub unsafe fn sym_chunk<const M: usize>(
    base: *mut u8,
    end: usize,
    prev: NonNull<ChunkFooter>,
    exact_accounting: bool,
) -> Chunk {
    let chunk_align = any_pow2(4, 12);
    let r: usize = kani::any();
    kani::assume(r <= end - 16);
    kani::assume(r & (chunk_align - 1) == 0);
    let usable = end - r;
    let off: usize = kani::any();
    kani::assume(off <= usable);
    kani::assume(off & (M - 1) == 0);
    place_chunk::<M>(base, end, r, off, chunk_align, prev, exact_accounting)
}

pub unsafe fn place_chunk<const M: usize>(
    base: *mut u8,
    end: usize,
    r: usize,
    off: usize,
    chunk_align: usize,
    prev: NonNull<ChunkFooter>,
    exact_accounting: bool,
) -> Chunk {
    let usable = end - r;
    let data = base.add(r);
    let footer = base.add(end) as *mut ChunkFooter;
    let ptr0 = data.add(off);
    let prev_ab = prev.as_ref().allocated_bytes;
    let allocated_bytes = if exact_accounting {
        prev_ab + usable
    } else {
        let ab: usize = kani::any();
        kani::assume(ab >= usable);
        ab
    };
    let layout = Layout::from_size_align_unchecked(usable + FOOTER_SIZE, chunk_align);
    ptr::write(
        footer,
        ChunkFooter {
            data: NonNull::new_unchecked(data),
            layout,
            prev: Cell::new(prev),
            ptr: Cell::new(NonNull::new_unchecked(ptr0)),
            allocated_bytes,
        },
    );
    Chunk {
        base,
        data,
        footer,
        ptr0,
        usable,
        chunk_align,
    }
}

pub unsafe fn mk_bump<const M: usize>(
    footer: *mut ChunkFooter,
    limit: Option<usize>,
) -> ManuallyDrop<Bump<M>> {
    ManuallyDrop::new(Bump::<M> {
        current_chunk_footer: Cell::new(NonNull::new_unchecked(footer)),
        allocation_limit: Cell::new(limit),
    })
}

/// Everything in a footer except the bump pointer.
#[derive(Clone, Copy, PartialEq, Eq)]
pub struct FooterSnap {
    pub data: usize,
    pub lsize: usize,
    pub lalign: usize,
    pub prev: usize,
    pub ab: usize,
}

pub unsafe fn snap(f: *const ChunkFooter) -> FooterSnap {
    FooterSnap {
        data: (*f).data.as_ptr() as usize,
        lsize: (*f).layout.size(),
        lalign: (*f).layout.align(),
        prev: (*f).prev.get().as_ptr() as usize,
        ab: (*f).allocated_bytes,
    }
}

/// RI clause 2: the shared static sentinel is pristine.
pub unsafe fn empty_is_pristine() -> bool {
    let e = EMPTY_CHUNK.get().as_ptr();
    let ea = e as usize;
    (*e).data.as_ptr() as usize == ea
        && (*e).ptr.get().as_ptr() as usize == ea
        && (*e).prev.get().as_ptr() as usize == ea
        && (*e).allocated_bytes == 0
        && (*e).layout.size() == FOOTER_SIZE
        && (*e).layout.align() == core::mem::align_of::<ChunkFooter>()
}

/// Trivial harness used by the runner to compile (and type-check) the whole harness set once.
#[kani::proof]
pub fn warm() {
    let x: u8 = kani::any();
    assert!(x as u16 <= 255);
}

// ---------------------------------------------------------------------------
// Copy substitutions (DESIGN §3.2).  Range-only variants: record the ranges and
// (for copy_nonoverlapping) assert that they do not overlap; no bytes move.
// ---------------------------------------------------------------------------

pub static mut COPY_CALLS: usize = 0;
pub static mut COPY_SRC: usize = 0;
pub static mut COPY_DST: usize = 0;
pub static mut COPY_LEN: usize = 0;

pub unsafe fn cno_range_only<T>(src: *const T, dst: *mut T, count: usize) {
    let n = count * core::mem::size_of::<T>();
    let s = src as usize;
    let d = dst as usize;
    vassert!(s + n <= d || d + n <= s, "NEVER: [C02,C12] copy_nonoverlapping called on overlapping ranges");
    COPY_CALLS += 1;
    COPY_SRC = s;
    COPY_DST = d;
    COPY_LEN = n;
}

pub unsafe fn copy_range_only<T>(src: *const T, dst: *mut T, count: usize) {
    let n = count * core::mem::size_of::<T>();
    COPY_CALLS += 1;
    COPY_SRC = src as usize;
    COPY_DST = dst as usize;
    COPY_LEN = n;
}

/// Byte loops with the documented semantics (content variants, small counts only).
pub unsafe fn cno_loop<T>(src: *const T, dst: *mut T, count: usize) {
    let n = count * core::mem::size_of::<T>();
    let s = src as *const u8;
    let d = dst as *mut u8;
    vassert!((s as usize) + n <= d as usize || (d as usize) + n <= s as usize,
            "NEVER: [C02,C12] copy_nonoverlapping called on overlapping ranges");
    let mut i = 0;
    while i < n {
        *d.add(i) = *s.add(i);
        i += 1;
    }
    COPY_CALLS += 1;
}

pub unsafe fn copy_loop<T>(src: *const T, dst: *mut T, count: usize) {
    let n = count * core::mem::size_of::<T>();
    let s = src as *const u8;
    let d = dst as *mut u8;
    if (d as usize) <= (s as usize) {
        let mut i = 0;
        while i < n {
            *d.add(i) = *s.add(i);
            i += 1;
        }
    } else {
        let mut i = n;
        while i > 0 {
            i -= 1;
            *d.add(i) = *s.add(i);
        }
    }
    COPY_CALLS += 1;
}

// ---------------------------------------------------------------------------
// A-pool: <= 3 concrete slots, symbolic refusal mask, symbolic displacement, ledger
// (DESIGN §3.1).  SLOT bytes per slot; the i-th ACCEPTED request gets slot i.
// ---------------------------------------------------------------------------

pub const SLOTS: usize = 3;
pub const SLOT: usize = 1136; // = 48 (mod 64): end-aligned blocks of size 2^j-16 start 64-aligned

#[repr(C, align(16))]
pub struct Slot(pub [u8; SLOT]);

// three separate objects (one array object of 3 slots made every footer access a
// symbolic-offset access into a 12 KiB array: out of memory at 10 GB)
pub static mut POOL0: Slot = Slot([0; SLOT]);
pub static mut POOL1: Slot = Slot([0; SLOT]);
pub static mut POOL2: Slot = Slot([0; SLOT]);

#[derive(Clone, Copy)]
pub struct Rec {
    pub ptr: usize,
    pub size: usize,
    pub align: usize,
    pub live: bool,
}
pub const NOREC: Rec = Rec { ptr: 0, size: 0, align: 0, live: false };
pub static mut LEDGER: [Rec; SLOTS] = [NOREC; SLOTS];
pub static mut NREC: usize = 0; // accepted requests so far (= slots used)
pub static mut NREQ: usize = 0; // requests so far (accepted or refused)
pub static mut NFREE: usize = 0;
pub static mut FAIL_MASK: u8 = 0;
pub static mut FOREIGN_FREE: bool = false;
pub static mut DOUBLE_FREE: bool = false;
pub static mut LAYOUT_MISMATCH: bool = false;
/// displacement of a handed-out block inside its slot, in units of the requested alignment
pub static mut DISPLACE: u8 = 0;

pub unsafe fn pool_reset(mask: u8) {
    NREC = 0;
    NREQ = 0;
    NFREE = 0;
    NLOG = 0;
    FORBID_ALLOC = false;
    FAIL_MASK = mask;
    FOREIGN_FREE = false;
    DOUBLE_FREE = false;
    LAYOUT_MISMATCH = false;
    LEDGER = [NOREC; SLOTS];
}

pub unsafe fn slot_base(i: usize) -> *mut u8 {
    if i == 0 {
        core::ptr::addr_of_mut!(POOL0) as *mut u8
    } else if i == 1 {
        core::ptr::addr_of_mut!(POOL1) as *mut u8
    } else {
        core::ptr::addr_of_mut!(POOL2) as *mut u8
    }
}

/// When set, any request reaching the global allocator is a failure of the harness's claim
/// ("served without obtaining memory") and the path ends there.
pub static mut FORBID_ALLOC: bool = false;

pub unsafe fn alloc_pool(l: Layout) -> *mut u8 {
    if FORBID_ALLOC {
        vassert!(false, "NEVER: [C06,C11,C18] a request that must be served from the current chunk went to the global allocator");
        kani::assume(false);
    }
    if NLOG < LOGN {
        LOG[NLOG] = (l.size(), l.align());
    }
    NLOG += 1;
    let ord = NREQ;
    NREQ += 1;
    if ord < 8 && (FAIL_MASK >> ord) & 1 == 1 {
        return ptr::null_mut();
    }
    if ord >= 8 || NREC >= SLOTS {
        return ptr::null_mut();
    }
    let a = l.align();
    // DISPLACE is concrete per harness (0, 1 or 3 times the requested alignment): a
    // nondeterministic 3-way choice here makes every access to the new chunk a
    // symbolic-offset access (measured: 21 k -> 1.9 M SAT variables for one call).
    let d = (DISPLACE as usize) * a;
    if l.size() > SLOT || d > SLOT - l.size() {
        // does not fit the slot at this displacement: model it as a refusal
        return ptr::null_mut();
    }
    // END-aligned placement: the block ends at the concrete offset SLOT - d, so the
    // chunk footer (which bumpalo puts at the end of the block) always lands at the same
    // concrete offset whatever candidate size was accepted.  With start-aligned placement
    // the footer address is an if-then-else over the accepted candidate, i.e. a
    // symbolic-offset pointer, and every later access costs O(object size) (out of memory).
    // (rounded down to the requested alignment; for the sizes bumpalo asks for, 2^j - 16, and
    // SLOT = 48 mod 64 this is the exact end-aligned position)
    let off = (SLOT - d - l.size()) & !(a - 1);
    let p = slot_base(NREC).add(off);
    LEDGER[NREC] = Rec { ptr: p as usize, size: l.size(), align: a, live: true };
    NREC += 1;
    p
}

pub unsafe fn dealloc_pool(p: *mut u8, l: Layout) {
    NFREE += 1;
    let pa = p as usize;
    let mut found = false;
    let mut i = 0;
    while i < SLOTS {
        if i < NREC && LEDGER[i].ptr == pa {
            found = true;
            if !LEDGER[i].live {
                DOUBLE_FREE = true;
            }
            if LEDGER[i].size != l.size() || LEDGER[i].align != l.align() {
                LAYOUT_MISMATCH = true;
            }
            LEDGER[i].live = false;
        }
        i += 1;
    }
    if !found {
        FOREIGN_FREE = true;
    }
}

/// Register a hand-made chunk as if A-pool had handed it out (RI clause 4).
pub unsafe fn pool_register(p: *mut u8, size: usize, align: usize) {
    LEDGER[NREC] = Rec { ptr: p as usize, size, align, live: true };
    NREC += 1;
}

pub unsafe fn ledger_live_bytes() -> usize {
    let mut t = 0;
    let mut i = 0;
    while i < SLOTS {
        if i < NREC && LEDGER[i].live {
            t += LEDGER[i].size;
        }
        i += 1;
    }
    t
}

pub unsafe fn ledger_live_count() -> usize {
    let mut t = 0;
    let mut i = 0;
    while i < SLOTS {
        if i < NREC && LEDGER[i].live {
            t += 1;
        }
        i += 1;
    }
    t
}

// ---------------------------------------------------------------------------
// Monitor: stores through Cell::set whose target lies inside the shared static
// sentinel EMPTY_CHUNK (DESIGN §3.3).  Observes same-value stores too.
// ---------------------------------------------------------------------------
pub static mut SENTINEL_STORES: usize = 0;

pub fn cell_set_monitor<T>(c: &Cell<T>, v: T) {
    unsafe {
        let a = c as *const Cell<T> as usize;
        let e = EMPTY_CHUNK.get().as_ptr() as usize;
        if a >= e && a < e + FOOTER_SIZE {
            SENTINEL_STORES += 1;
        }
    }
    drop(c.replace(v));
}

// ---------------------------------------------------------------------------
// Drop ledger (DESIGN §3.3): values with identity whose destructor counts.
// ---------------------------------------------------------------------------
pub const NIDS: usize = 8;
pub static mut DROPS: [u8; NIDS] = [0; NIDS];

#[derive(Debug)]
pub struct D(pub u8);
impl Drop for D {
    fn drop(&mut self) {
        unsafe {
            if (self.0 as usize) < NIDS {
                DROPS[self.0 as usize] += 1;
            }
        }
    }
}
pub unsafe fn drops_reset() {
    DROPS = [0; NIDS];
}

/// Concrete small chunk in a local backing object: `usable` bytes, finger at `off`.
pub unsafe fn small_chunk<const M: usize>(base: *mut u8, usable: usize, off: usize) -> Chunk {
    place_chunk::<M>(base, usable, 0, off, 16, empty_footer(), true)
}
