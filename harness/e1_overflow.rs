// E1 — size-taking entry points with full-width counts / capacities (DESIGN §6 C19, C09).
// Arena: one 256-byte chunk (concrete), global allocator refuses everything (A-null), so
// nothing larger than 256 bytes can ever have been reserved: any "success" that claims
// more is a wrapped size computation.
use super::common::*;
use crate::Bump;
use core::alloc::Layout;

pub static mut INIT_RAN: bool = false;

pub trait Zed: Copy {
    fn zed() -> Self;
}
impl Zed for u8 {
    fn zed() -> Self {
        0
    }
}
impl Zed for u16 {
    fn zed() -> Self {
        0
    }
}
impl Zed for u64 {
    fn zed() -> Self {
        0
    }
}
impl Zed for [u8; 3] {
    fn zed() -> Self {
        [0; 3]
    }
}
impl Zed for [u64; 512] {
    fn zed() -> Self {
        [0; 512]
    }
}

pub fn e1_slice<T: Zed, const TRY: bool>() {
    let mut back = Backing::<304>([0u8; 304]);
    unsafe {
        NLOG = 0;
        INIT_RAN = false;
        let c = small_chunk::<1>(back.0.as_mut_ptr(), 256, 256);
        let bump = mk_bump::<1>(c.footer, kani::any());
        let len: usize = kani::any();
        let sz = core::mem::size_of::<T>();
        // only requests that cannot possibly be satisfied (more than the 256 bytes that exist)
        kani::assume(sz > 0 && len > 256 / sz);
        let f = |_i: usize| -> T {
            INIT_RAN = true;
            vassert!(false, "NEVER: [C19,C09] initialiser run for a slice whose size cannot have been reserved");
            kani::assume(false);
            T::zed()
        };
        if TRY {
            let r = bump.try_alloc_slice_fill_with(len, f);
            vassert!(r.is_err(), "NEVER: [C19,C09] try_alloc_slice_fill_with returned a slice larger than anything the arena holds");
            vassert!(c.cur_ptr() == c.ptr0, "NEVER: [C09] finger moved by a failed slice request");
            let w: u8 = kani::any();
            if w == 1 {
                vassert!(bump.try_alloc_slice_fill_copy(len, T::zed()).is_err(), "NEVER: [C19] try_alloc_slice_fill_copy accepted an impossible length");
            } else if w == 2 {
                vassert!(bump.try_alloc_slice_fill_clone(len, &T::zed()).is_err(), "NEVER: [C19] try_alloc_slice_fill_clone accepted an impossible length");
            }
            kani::cover!(len > usize::MAX / 2, "REACH: count whose byte size overflows");
            kani::cover!(len == 256 / sz + 1, "REACH: count just above what exists");
        } else {
            let w: bool = kani::any();
            if w {
                let r = bump.alloc_slice_fill_with(len, f);
                kani::cover!(true, "NEVER: [C19] alloc_slice_fill_with returned for a length that cannot be satisfied (must panic)");
                core::mem::forget(r);
            } else {
                let r: Result<&mut [T], ()> = bump.alloc_slice_try_fill_with(len, |_i| {
                    INIT_RAN = true;
                    kani::assume(false);
                    Err(())
                });
                vassert!(!INIT_RAN, "NEVER: [C11,C19] initialiser run for a slice whose size cannot have been reserved");
                kani::cover!(true, "NEVER: [C19] alloc_slice_try_fill_with returned for a length that cannot be satisfied (must panic)");
                core::mem::forget(r);
            }
        }
    }
}

#[cfg(feature = "collections")]
pub fn e1_vec<T: Zed, const OP: u8>() {
    use crate::collections::Vec as BVec;
    let mut back = Backing::<304>([0u8; 304]);
    unsafe {
        NLOG = 0;
        let c = small_chunk::<1>(back.0.as_mut_ptr(), 256, 256);
        let bump = mk_bump::<1>(c.footer, None);
        let n: usize = kani::any();
        let sz = core::mem::size_of::<T>();
        kani::assume(n > 256 / sz);
        let b: &Bump = &bump;
        match OP {
            0 => {
                let v: BVec<T> = BVec::with_capacity_in(n, b);
                kani::cover!(true, "NEVER: Vec::with_capacity_in returned for a capacity that cannot be satisfied");
                core::mem::forget(v);
            }
            1 => {
                let mut v: BVec<T> = BVec::new_in(b);
                v.reserve(n);
                kani::cover!(true, "NEVER: Vec::reserve returned for a capacity that cannot be satisfied");
                core::mem::forget(v);
            }
            2 => {
                let mut v: BVec<T> = BVec::new_in(b);
                v.reserve_exact(n);
                kani::cover!(true, "NEVER: Vec::reserve_exact returned for a capacity that cannot be satisfied");
                core::mem::forget(v);
            }
            3 => {
                let mut v: BVec<T> = BVec::new_in(b);
                let r = v.try_reserve(n);
                vassert!(r.is_err(), "NEVER: [C19] Vec::try_reserve accepted a capacity that cannot be satisfied");
                vassert!(v.capacity() * sz <= 256, "NEVER: [C19] Vec capacity claims more memory than was reserved");
                let r2 = v.try_reserve_exact(n);
                vassert!(r2.is_err(), "NEVER: [C19] Vec::try_reserve_exact accepted a capacity that cannot be satisfied");
                kani::cover!(n > usize::MAX / 2, "INFO: capacity whose byte size overflows");
            }
            _ => {
                // reserve on a vector that already holds something: used + additional overflow
                let mut v: BVec<T> = BVec::with_capacity_in(2, b);
                v.push(T::zed());
                let r = v.try_reserve(n);
                vassert!(r.is_err(), "NEVER: [C19] Vec::try_reserve accepted used+additional that cannot be satisfied");
                vassert!(v.capacity() * sz <= 256 && v.len() == 1, "NEVER: [C19] Vec capacity claims more memory than was reserved");
                kani::cover!(n == usize::MAX, "INFO: used + additional overflows");
            }
        }
        kani::cover!(OP >= 3, "REACH: fallible reservation refused, harness end reached");
    }
}

#[cfg(feature = "collections")]
pub fn e1_string<const OP: u8>() {
    use crate::collections::String as BString;
    let mut back = Backing::<304>([0u8; 304]);
    unsafe {
        NLOG = 0;
        let c = small_chunk::<1>(back.0.as_mut_ptr(), 256, 256);
        let bump = mk_bump::<1>(c.footer, None);
        let n: usize = kani::any();
        kani::assume(n > 256);
        let b: &Bump = &bump;
        if OP == 0 {
            let s = BString::with_capacity_in(n, b);
            kani::cover!(true, "NEVER: String::with_capacity_in returned for a capacity that cannot be satisfied");
            core::mem::forget(s);
        } else {
            let mut s = BString::new_in(b);
            s.reserve(n);
            kani::cover!(true, "NEVER: String::reserve returned for a capacity that cannot be satisfied");
            core::mem::forget(s);
        }
    }
}

macro_rules! e1 {
    ($name:ident, $body:expr) => {
        #[kani::proof]
        #[kani::unwind(8)]
        #[kani::stub(crate::core_alloc::alloc::alloc, alloc_null)]
        #[kani::stub(crate::core_alloc::alloc::dealloc, dealloc_count)]
        #[kani::stub(core::ptr::copy_nonoverlapping, cno_range_only)]
        #[kani::stub(core::ptr::copy, copy_range_only)]
        pub fn $name() {
            $body
        }
    };
}
e1!(e1_try_slice_u8, e1_slice::<u8, true>());
e1!(e1_try_slice_u16, e1_slice::<u16, true>());
e1!(e1_try_slice_a3, e1_slice::<[u8; 3], true>());
e1!(e1_try_slice_u64, e1_slice::<u64, true>());
e1!(e1_try_slice_a4096, e1_slice::<[u64; 512], true>());
e1!(e1_inf_slice_u8, e1_slice::<u8, false>());
e1!(e1_inf_slice_u64, e1_slice::<u64, false>());
e1!(e1_inf_slice_a3, e1_slice::<[u8; 3], false>());
#[cfg(feature = "collections")]
e1!(e1_vec_with_capacity_u8, e1_vec::<u8, 0>());
#[cfg(feature = "collections")]
e1!(e1_vec_with_capacity_u64, e1_vec::<u64, 0>());
#[cfg(feature = "collections")]
e1!(e1_vec_reserve_u64, e1_vec::<u64, 1>());
#[cfg(feature = "collections")]
e1!(e1_vec_reserve_a3, e1_vec::<[u8; 3], 1>());
#[cfg(feature = "collections")]
e1!(e1_vec_reserve_exact_u16, e1_vec::<u16, 2>());
#[cfg(feature = "collections")]
e1!(e1_vec_try_reserve_u64, e1_vec::<u64, 3>());
#[cfg(feature = "collections")]
e1!(e1_vec_try_reserve_a3, e1_vec::<[u8; 3], 3>());
#[cfg(feature = "collections")]
e1!(e1_vec_try_reserve_used_u8, e1_vec::<u8, 4>());
#[cfg(feature = "collections")]
e1!(e1_vec_try_reserve_used_u64, e1_vec::<u64, 4>());
#[cfg(feature = "collections")]
e1!(e1_string_with_capacity, e1_string::<0>());
#[cfg(feature = "collections")]
e1!(e1_string_reserve, e1_string::<1>());

/// used + additional overflows usize: refused before any memory is touched (cheap path).
#[cfg(feature = "collections")]
pub fn e1_vec_used_overflow<const TRY: bool>() {
    use crate::collections::Vec as BVec;
    let mut back = Backing::<304>([0u8; 304]);
    unsafe {
        let c = small_chunk::<1>(back.0.as_mut_ptr(), 256, 256);
        let bump = mk_bump::<1>(c.footer, None);
        let b: &Bump = &bump;
        let mut v: BVec<u32> = BVec::with_capacity_in(4, b);
        let len: usize = 1; // concrete: a symbolic length costs 5 min and adds nothing to the size arithmetic
        let mut k = 0;
        while k < len {
            v.push(k as u32);
            k += 1;
        }
        let n: usize = kani::any();
        kani::assume(n > usize::MAX - len);
        if TRY {
            let exact: bool = kani::any();
            let r = if exact { v.try_reserve_exact(n) } else { v.try_reserve(n) };
            vassert!(r.is_err(), "NEVER: [C19] Vec::try_reserve(_exact) accepted len + additional > usize::MAX");
            vassert!(v.capacity() == 4 && v.len() == len, "NEVER: [C19] refused reservation changed the vector");
            kani::cover!(n == usize::MAX, "REACH: additional == usize::MAX");
        } else {
            let exact: bool = kani::any();
            if exact {
                v.reserve_exact(n);
            } else {
                v.reserve(n);
            }
            kani::cover!(true, "NEVER: [C19] Vec::reserve(_exact) returned although len + additional > usize::MAX");
            core::mem::forget(v);
        }
    }
}
#[cfg(feature = "collections")]
e1!(e1_vec_used_overflow_inf, e1_vec_used_overflow::<false>());
