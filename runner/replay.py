"""Replay of solver counterexamples against a native build (DESIGN 7.2)."""
import os


def on_failure(prop, h, v, crate, target_dir, logs, replay_dir, solver_only_re):
    return None


def replay_file(path):
    print("replay not implemented yet for", path)
    return 2
