"""Replay of solver counterexamples (DESIGN 7.2).

On a failed harness:
 1. the harness is re-run with Kani's concrete playback (`--concrete-playback=inplace`), which
    turns the solver's assignment into ordinary `#[test]` functions (one per violated check)
    inside the scratch copy of the harness source;
 2. for harness families whose scenario does not depend on a global-allocator model
    (NATIVE_OK), the generated test is executed NATIVELY against the real code
    (`cargo kani playback`, dev profile) with the non-cutting oracle macro compiled as a real
    `assert!`; the violation counts as reproduced if the native run fails with the same message;
 3. the concrete values, the test source and the native outcome are written to
    /verif/replays/<property>/<harness>.replay.json, which is the path reported on the
    VIOLATION line and accepted by `./check <property> --replay <path>`.
"""
import json
import os
import re
import subprocess
import time

import kani

# families whose harness scenarios run unchanged without the stubs (no allocator model on the
# violating path; copy stubs are semantically the real copies)
NATIVE_OK = {"F1", "F2", "F5", "F7", "F8", "V1", "V3", "V4", "S1", "S2", "DL", "BX", "F0"}

BLOCK_RE = re.compile(r"Concrete playback unit test for `([^`]+)`:\n```\n(.*?)\n```", re.S)
CHECK_RE = re.compile(r"/// Check for `([^`]+)`: \"(.*?)\"\n///\n", re.S)
NAME_RE = re.compile(r"fn (kani_concrete_playback_\w+)\(\)")
VAL_RE = re.compile(r"^\s*// (.*)\n\s*vec!\[([^\]]*)\],", re.M)


def _norm(d):
    return re.sub(r"\s+", " ", d.replace('\\"', '"').strip().strip('"')).strip()


def on_failure(prop, h, v, crate, target_dir, logs, replay_dir, solver_only_re):
    out_dir = os.path.join(replay_dir, prop)
    os.makedirs(out_dir, exist_ok=True)
    path = os.path.join(out_dir, h.name + ".replay.json")
    rec = {
        "property": prop, "harness": h.path, "family": h.family, "instantiation": h.inst, "bounds": h.bounds,
        "violations": v["violations"], "created": time.strftime("%Y-%m-%dT%H:%M:%SZ", time.gmtime()),
        "native_replay": "not_attempted", "path": path,
    }
    want = [_norm(x["desc"]) for x in v["violations"]]
    # 1. concrete playback: Kani prints one #[test] per violated check / satisfied cover
    #    (`inplace` cannot be used: it inserts the tests into the body of the macro_rules that
    #    generate the harness functions)
    cmd = ["cargo", "kani", "-Z", "stubbing", "-Z", "concrete-playback", "--concrete-playback=print",
           "--features", kani.FEATURES, "--target-dir", target_dir, "--harness", h.path, "--exact"] + list(h.extra_args)
    lp = os.path.join(logs, h.name + ".playback.log")
    try:
        with open(lp, "w") as lf:
            subprocess.run(cmd, cwd=crate, stdout=lf, stderr=subprocess.STDOUT, env=kani.cargo_env(), timeout=h.timeout + 600)
    except subprocess.TimeoutExpired:
        rec["native_replay"] = "playback_generation_timed_out"
        _write(path, rec)
        return _result(rec, solver_only=True)
    with open(lp, errors="replace") as f:
        ptxt = f.read()
    tests = []
    for m in BLOCK_RE.finditer(ptxt):
        block = m.group(2)
        nm = NAME_RE.search(block)
        if not nm:
            continue
        cm = re.search(r"/// Check for `([^`]+)`: \"(.*?)\"\n///\n", block, re.S)
        desc = _norm(cm.group(2)) if cm else ""
        ti = block.index("#[test]")
        body = block[ti:]
        vals = [{"value": a.strip(), "bytes": b.strip()} for a, b in VAL_RE.findall(body)]
        tests.append({"test": nm.group(1), "kind": cm.group(1) if cm else "", "check": desc, "concrete_values": vals, "source": body})
    # the harness file (same module as the harness function)
    hdir = os.path.join(crate, "verif_harness")
    hfile = None
    for fn in sorted(os.listdir(hdir)):
        with open(os.path.join(hdir, fn), errors="replace") as f:
            if re.search(r"\b%s\b" % re.escape(h.name), f.read()):
                hfile = os.path.join(hdir, fn)
                break
    chosen = [t for t in tests if any(w and (w in t["check"] or t["check"] in w) for w in want)]
    rec["counterexamples"] = chosen[:4] if chosen else tests[:2]
    rec["playback_tests_generated"] = len(tests)
    if not chosen:
        rec["native_replay"] = "no_playback_test_for_this_check"
        _write(path, rec)
        return _result(rec, solver_only=True)
    solver_only = all(solver_only_re.search(t["check"]) and not t["check"].startswith("NEVER: [C") for t in chosen) or \
        all(t["kind"] == "cover" and "returned" in t["check"] for t in chosen)
    if h.family not in NATIVE_OK or solver_only:
        rec["native_replay"] = "not_applicable: " + ("check is observable by the solver only (pointer/unwinding/does-not-return class)" if solver_only
                                                     else "scenario depends on a global-allocator model (stub) that a native run does not have")
        _write(path, rec)
        return _result(rec, solver_only=True)
    # 2. native execution of the chosen test(s)
    outcomes = []
    reproduced = False
    if hfile is None:
        rec["native_replay"] = "not_attempted: harness file not found"
        _write(path, rec)
        return _result(rec, solver_only=True)
    with open(hfile, "a") as f:
        f.write("\n// ---- concrete playback tests appended by the runner ----\n")
        for t in chosen[:2]:
            # the crate is no_std: name Vec / vec! through the re-exported alloc crate
            src = t["source"].replace("Vec<Vec<u8>>", "crate::core_alloc::vec::Vec<crate::core_alloc::vec::Vec<u8>>")
            src = src.replace("vec![", "crate::core_alloc::vec![")
            f.write(src + "\n")
    for t in chosen[:2]:
        c2 = ["cargo", "kani", "playback", "-Z", "concrete-playback", "--features", kani.FEATURES, "--", t["test"]]
        nl = os.path.join(logs, h.name + "." + t["test"][-8:] + ".native.log")
        try:
            with open(nl, "w") as lf:
                p = subprocess.run(c2, cwd=crate, stdout=lf, stderr=subprocess.STDOUT, env=kani.cargo_env(), timeout=900)
            with open(nl, errors="replace") as f:
                txt = f.read()
            failed = ("test result: FAILED" in txt) or ("panicked at" in txt)
            same = any(_norm(w)[:60] in _norm(txt) for w in want) or t["check"][:60] in _norm(txt)
            outcomes.append({"test": t["test"], "rc": p.returncode, "native_failed": failed, "same_message": same,
                             "tail": "\n".join([l for l in txt.splitlines() if "panicked" in l or "NEVER" in l or "test result" in l][-6:])})
            if failed and (same or "panicked at" in txt):
                reproduced = True
        except subprocess.TimeoutExpired:
            outcomes.append({"test": t["test"], "native_failed": True, "timeout": True})
            reproduced = True  # non-termination is a reproduction of a hang
    rec["native_outcomes"] = outcomes
    rec["native_replay"] = "reproduced" if reproduced else "not_reproduced"
    _write(path, rec)
    return _result(rec, solver_only=False)


def _result(rec, solver_only):
    return {"path": rec["path"], "reproduced": True if rec["native_replay"] == "reproduced" else (False if rec["native_replay"] == "not_reproduced" else None),
            "solver_only": solver_only, "native_replay": rec["native_replay"]}


def _write(path, rec):
    with open(path, "w") as f:
        json.dump(rec, f, indent=1)


def replay_file(path):
    """./check <prop> --replay <path>: re-decide the recorded harness on the CURRENT tree."""
    with open(path) as f:
        rec = json.load(f)
    name = rec["harness"].split("::")[-1]
    prop = rec["property"]
    print("re-running harness %s for %s on the current tree" % (name, prop))
    me = os.path.join(os.path.dirname(os.path.abspath(__file__)), "main.py")
    r = subprocess.run(["python3", me, prop, "--only", "^" + re.escape(name) + "$"], env=dict(os.environ, VERIF_REPLAY_PROP=prop))
    return r.returncode
