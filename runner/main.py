#!/usr/bin/env python3
"""./check <PROPERTY> [--tier quick|thorough] — decide one property by running its
Kani/CBMC harness set on a fresh scratch copy of /repo's working tree."""
import argparse
import concurrent.futures as cf
import json
import os
import re
import shutil
import sys
import threading
import time

HERE = os.path.dirname(os.path.abspath(__file__))
sys.path.insert(0, HERE)
import scratch  # noqa: E402
import kani  # noqa: E402
import registry  # noqa: E402
import replay  # noqa: E402

VERIF = os.path.dirname(HERE)
EVIDENCE_DIR = os.path.join(VERIF, "evidence")
REPLAY_DIR = os.path.join(VERIF, "replays")
KNOWN = os.path.join(VERIF, "known_findings.json")

TAG_RE = re.compile(r"\[((?:C\d\d)(?:,C\d\d)*)\]")

# failure classes that no native run can observe (reported separately, DESIGN 7.2)
SOLVER_ONLY_RE = re.compile(
    r"dereference failure|pointer (NULL|invalid|outside)|unwinding assertion|"
    r"offset_from|same object|misaligned|ptr::copy_nonoverlapping|overlap|"
    r"attempt to compute offset|NEVER:|\[monitor\]")


def log(*a):
    print(*a, flush=True)


def load_known():
    if not os.path.exists(KNOWN):
        return []
    with open(KNOWN) as f:
        return json.load(f).get("findings", [])


def tags_of(desc):
    m = TAG_RE.search(desc)
    if not m:
        return None
    return set(m.group(1).split(","))


def classify(h, r, prop, known):
    """-> dict(status=PASS|FAIL|INCONCLUSIVE|KNOWN, reasons=[...], violations=[...], known=[...])"""
    out = {"status": "PASS", "reasons": [], "violations": [], "known": [], "other_props": [],
           "expected_failures": 0}
    if r["compile_error"]:
        out["status"] = "INCONCLUSIVE"
        out["reasons"].append("harness does not build against this tree")
        return out
    if r["timed_out"]:
        out["status"] = "INCONCLUSIVE"
        out["reasons"].append("timeout after %ds" % h.timeout)
        return out
    if r["verdict_line"] is None or r["total"] is None:
        out["status"] = "INCONCLUSIVE"
        out["reasons"].append("no verdict (rc=%s%s)" % (r["rc"], ", out of memory" if r["oom"] else ""))
        return out
    for s in h.stubs:
        if not any(s in x for x in r["stubs"]):
            out["status"] = "INCONCLUSIVE"
            out["reasons"].append("stub line missing: " + s)
            return out
    fails = []
    undetermined = 0
    for c in r["checks"]:
        st = c["status"]
        d = c["desc"]
        if kani.is_cover(c):
            if d.startswith("NEVER:") and st == "SATISFIED":
                fails.append(c)
            elif d.startswith("REACH:") and st != "SATISFIED":
                if not any(re.search(e, d) for e in h.exempt):
                    out.setdefault("unreached", []).append(d)
            continue
        if st == "ERROR":
            out["status"] = "INCONCLUSIVE"
            out["reasons"].append("solver error (memory/time) before all checks were decided")
            return out
        if st == "FAILURE":
            fails.append(c)
        elif st == "UNDETERMINED":
            undetermined += 1
    n_fail_parsed = len([c for c in fails if not kani.is_cover(c)])
    if (r["failed"] or 0) != n_fail_parsed or (r["verdict_line"] == "FAILED" and not fails):
        out["status"] = "INCONCLUSIVE"
        out["reasons"].append("output parser disagrees with Kani's summary (%s failed reported, %d parsed)" % (r["failed"], n_fail_parsed))
        return out
    canary_hit = False
    for c in fails:
        d = c["desc"]
        if h.canary and re.search(h.canary, d):
            canary_hit = True
            continue
        if any(re.search(a, d) for a in h.allow):
            out["expected_failures"] += 1
            continue
        if d.startswith("unwinding assertion") and not h.unwind_is_claim:
            out["reasons"].append("unwinding bound too small: " + c["loc"])
            out.setdefault("bound", []).append(c)
            continue
        t = tags_of(d)
        if t is not None and prop != "X" and prop not in t:
            out["other_props"].append({"desc": d, "props": sorted(t)})
            continue
        k = None
        for kf in known:
            if kf["property"] == prop and re.search(kf["harness"], h.name) and re.search(kf["desc"], d):
                k = kf
                break
        if k is not None:
            out["known"].append({"finding": k["id"], "desc": d, "what": k["what"]})
        else:
            out["violations"].append({"desc": d, "loc": c["loc"], "check": c["name"]})
    if h.canary:
        if canary_hit:
            out["status"] = "PASS"
            out["canary"] = "failed as required"
        else:
            out["status"] = "INCONCLUSIVE"
            out["reasons"].append("canary twin did not fail: the family is vacuous or the oracle is dead")
        return out
    if out["violations"]:
        out["status"] = "FAIL"
    elif out.get("bound"):
        out["status"] = "INCONCLUSIVE"
    elif out["known"]:
        out["status"] = "KNOWN"
    elif undetermined and not fails:
        out["status"] = "INCONCLUSIVE"
        out["reasons"].append("%d checks undetermined" % undetermined)
    elif out.get("unreached") and not fails:
        out["status"] = "INCONCLUSIVE"
        out["reasons"].append("vacuity: cover not satisfied: " + "; ".join(out["unreached"]))
    return out


def main():
    ap = argparse.ArgumentParser()
    ap.add_argument("prop")
    ap.add_argument("--tier", default=os.environ.get("VERIF_TIER", "quick"), choices=["quick", "thorough"])
    ap.add_argument("--jobs", type=int, default=int(os.environ.get("VERIF_JOBS", "0")))
    ap.add_argument("--only", default=None, help="regex on harness names")
    ap.add_argument("--keep", action="store_true")
    ap.add_argument("--list", action="store_true")
    ap.add_argument("--no-replay", action="store_true")
    ap.add_argument("--replay", default=None, help="re-run a recorded counterexample natively")
    args = ap.parse_args()
    prop = args.prop
    tier = args.tier
    try:
        seed = int(os.environ.get("VERIF_SEED", "0"))
    except ValueError:
        seed = 0

    if args.replay:
        sys.exit(replay.replay_file(args.replay))

    import properties
    dev = prop == "X"
    if not dev and prop not in properties.PROPS:
        log("unknown or not-applicable property", prop)
        sys.exit(2)
    hs = registry.select(prop, tier)
    if args.only:
        hs = [h for h in registry.ALL if re.search(args.only, h.name)]
    if args.list:
        for h in hs:
            log(h.path, h.cost)
        return 0
    if not hs:
        log("no harnesses registered for", prop, tier)
        sys.exit(2)
    # longest first; the seed only rotates the order among equal costs
    hs = sorted(hs, key=lambda h: (-h.cost, (hash(h.name) + seed) % 97))
    known = load_known()
    t0 = time.time()

    crate = scratch.make("crate", keep=args.keep)
    logs = os.path.join(os.path.dirname(crate), "logs")
    os.makedirs(logs, exist_ok=True)
    jobs = args.jobs or min(len(hs), int(os.environ.get("VERIF_MAXJOBS", "12")))
    log("[%s/%s] %d harnesses, %d workers, source %s" % (prop, tier, len(hs), jobs, scratch.repo_head()))

    # warm build: the first (longest) harness runs alone for its compile phase; the other
    # workers get a copy of its target directory once the build is there.
    tdirs = [os.path.join(os.path.dirname(crate), "target-%d" % i) for i in range(jobs)]
    warm = kani.warm_build(crate, tdirs[0], os.path.join(logs, "_warm.log"))
    if not warm["ok"]:
        # harness set does not build against this tree
        log("INCONCLUSIVE: the harness crate does not build against this tree (see below)")
        log(warm["tail"])
        if not args.only and not dev and not os.environ.get("VERIF_NO_EVIDENCE"):
            write_evidence(prop, tier, seed, [], time.time() - t0, 0, inconclusive=["build failed"])
        sys.exit(2)
    for t in tdirs[1:]:
        shutil.copytree(tdirs[0], t, symlinks=True)

    free = list(tdirs)
    lock = threading.Lock()
    results = []
    # memory-aware admission: the sum of the expected peaks of the running CBMC processes stays
    # below the budget (62 GB machine, no swap: 12 heavy harnesses at once were killed by memory
    # pressure and came back "no verdict")
    budget = [float(os.environ.get("VERIF_MEM_BUDGET_GB", "44"))]
    cond = threading.Condition()

    def work(h):
        need = min(h.mem_need, float(os.environ.get("VERIF_MEM_BUDGET_GB", "44")))
        with cond:
            while budget[0] < need:
                cond.wait()
            budget[0] -= need
        try:
            return work2(h)
        finally:
            with cond:
                budget[0] += need
                cond.notify_all()

    def work2(h):
        with lock:
            td = free.pop()
        try:
            lp = os.path.join(logs, h.name + ".log")
            r = kani.run(crate, td, h.path, lp, h.timeout, h.mem_gb, h.extra_args)
            v = classify(h, r, prop, known)
            log("  %-34s %-12s %6.1fs  checks %s/%s  %s" % (
                h.name, v["status"], r["wall_s"], (r["total"] or 0) - (r["failed"] or 0), r["total"],
                "; ".join(v["reasons"])[:160]))
            return h, r, v, lp
        finally:
            with lock:
                free.append(td)

    with cf.ThreadPoolExecutor(max_workers=jobs) as ex:
        for res in ex.map(work, hs):
            results.append(res)

    violations = 0
    inconclusive = []
    printed_known = set()
    for h, r, v, lp in results:
        if v["status"] == "INCONCLUSIVE":
            inconclusive.append("%s: %s" % (h.name, "; ".join(v["reasons"])))
            keep_log(prop, h, lp)
        for k in v["known"]:
            key = (k["finding"], h.name)
            if k["finding"] not in printed_known:
                printed_known.add(k["finding"])
                log("KNOWN-FINDING: property=%s %s: %s" % (prop, k["finding"], k["what"]))
        for o in v["other_props"]:
            log("NOTE: %s: failed check belongs to %s, not %s: %s" % (h.name, ",".join(o["props"]), prop, o["desc"]))
        if v["status"] == "FAIL":
            path = keep_log(prop, h, lp)
            rp = None
            if not args.no_replay:
                rp = replay.on_failure(prop, h, v, crate, tdirs[0], logs, REPLAY_DIR, SOLVER_ONLY_RE)
            v["replay"] = rp
            if rp is not None:
                # The solver's verdict over the real code decides.  The native run is corroboration:
                # it executes the same harness scenario WITHOUT the allocator/copy stubs, so a
                # native run that does not fail is recorded (and shown) but does not retract the
                # violation (DESIGN A.3.7).
                log("  native replay: %s" % rp.get("native_replay"))
            violations += 1
            for x in v["violations"][:6]:
                log("  failed: %s  @ %s" % (x["desc"], x["loc"]))
            log("VIOLATION property=%s replay=%s" % (prop, (rp or {}).get("path") or path))

    wall = time.time() - t0
    if not args.only and not dev and not os.environ.get("VERIF_NO_EVIDENCE"):
        write_evidence(prop, tier, seed, results, wall, violations, inconclusive)
    if not args.keep:
        scratch._cleanup()
    if violations:
        sys.exit(1)
    if inconclusive:
        for i in inconclusive:
            log("INCONCLUSIVE:", i)
        sys.exit(2)
    log("[%s/%s] held on everything explored (%d harnesses, %.0fs)" % (prop, tier, len(results), wall))
    return 0


def keep_log(prop, h, lp):
    d = os.path.join(REPLAY_DIR, prop)
    os.makedirs(d, exist_ok=True)
    dst = os.path.join(d, h.name + ".kani.log")
    try:
        # keep only the informative part (failed checks, covers, summary)
        with open(lp, errors="replace") as f:
            txt = f.read()
        r = kani.parse_log(txt)
        with open(dst, "w") as f:
            f.write("# harness %s\n" % h.path)
            for c in r["checks"]:
                if c["status"] in ("FAILURE", "SATISFIED", "UNSATISFIABLE", "UNDETERMINED") or kani.is_cover(c):
                    f.write("%s | %s | %s | %s\n" % (c["status"], c["name"], c["desc"], c["loc"]))
            f.write("\n# tail\n" + "\n".join(txt.splitlines()[-40:]) + "\n")
    except Exception as e:  # pragma: no cover
        dst = lp
    return dst


def write_evidence(prop, tier, seed, results, wall, violations, inconclusive):
    import properties
    P = properties.PROPS.get(prop, {})
    os.makedirs(EVIDENCE_DIR, exist_ok=True)
    harnesses = []
    obligations = 0
    discharged = 0
    nontrivial = 0
    solver_s = 0.0
    funcs = set()
    samples = []
    stubs = set()
    for h, r, v, lp in results:
        covers = [(c["desc"], c["status"]) for c in r["checks"] if kani.is_cover(c)]
        n_fail = r["failed"] or 0
        tot = r["total"] or 0
        never = [(d, s) for d, s in covers if d.startswith("NEVER:")]
        never_ok = [1 for d, s in never if s in ("UNSATISFIABLE", "UNREACHABLE")]
        # obligations = CBMC property checks (panics, overflow, pointer safety, debug assertions,
        # unwinding assertions) + the harness's own oracle conditions (NEVER covers)
        obligations += tot + len(never)
        discharged += (tot - n_fail) + len(never_ok)
        solver_s += r["solver_s"]
        funcs.update(h.funcs)
        stubs.update(r["stubs"])
        reach = [d for d, s in covers if d.startswith("REACH:") and not any(re.search(e, d) for e in h.exempt)]
        reach_sat = [d for d, s in covers if d.startswith("REACH:") and s == "SATISFIED" and not any(re.search(e, d) for e in h.exempt)]
        info_sat = [d for d, s in covers if d.startswith("INFO:") and s == "SATISFIED"]
        if v["status"] in ("PASS", "KNOWN") and reach and len(reach) == len(reach_sat):
            nontrivial += 1
        harnesses.append({
            "harness": h.path, "family": h.family, "instantiation": h.inst, "verdict": v["status"],
            "bounds": h.bounds, "cbmc_checks": tot, "cbmc_checks_failed": n_fail,
            "expected_failures": v.get("expected_failures", 0),
            "covers_reach_satisfied": len(reach_sat), "covers_reach_total": len(reach),
            "oracle_conditions": len(never), "oracle_conditions_unsatisfiable": len(never_ok),
            "solver_s": round(r["solver_s"], 2), "solver_calls": r["solver_calls"],
            "sat_vars": r["vars"], "sat_clauses": r["clauses"],
            "verification_time_s": r["vtime"], "wall_s": round(r["wall_s"], 1),
            "reasons": v["reasons"], "known_findings": [k["finding"] for k in v["known"]],
            "violations": [x["desc"] for x in v["violations"]][:10],
            "canary": bool(h.canary),
        })
        if len(samples) < 6 and reach_sat:
            samples.append({"harness": h.name, "instantiation": h.inst, "bounds": h.bounds,
                            "reachability_witnesses_found_by_solver": (reach_sat + info_sat)[:12],
                            "verdict": v["status"]})
    if not samples:
        samples = [{"harness": h.name, "verdict": v["status"]} for h, r, v, lp in results[:3]] or [{"note": "no harness ran"}]
    ev = {
        "property_id": prop,
        "tier": tier,
        "seed": seed,
        "level": "model_checking",
        "coverage": {
            "evaluations": max(len(results), 1) if results else 1,
            "distinct_nontrivial": nontrivial,
            "rule": "one evaluation = one Kani harness (one monomorphic instantiation of the real code, "
                    "symbolic inputs/state within the listed bounds) decided by CBMC+cadical over ALL values in the bound; "
                    "a harness counts as non-trivial only if it passed AND every REACH cover (reachability witness) "
                    "in it was SATISFIED by the solver, i.e. it is not vacuous",
            "samples": samples,
            "obligations": obligations,
            "discharged": discharged,
            "harnesses": harnesses,
            "functions_encoded": sorted(funcs),
            "stubs_active": sorted(stubs),
            "solver_time_s": round(solver_s, 2),
            "engine": "kani 0.68.0 / CBMC 6.11.0 / cadical",
            "source": {"repo_head": scratch.repo_head(), "src_sha256": scratch.source_digest()},
            "explanation": P.get("explanation", ""),
            "outside_the_claim": P.get("outside", []),
            "inconclusive": inconclusive,
            "exhaustive": False,
        },
        "assumptions": properties.TRUSTED + P.get("assumptions", []),
        "wall_s": round(wall, 1),
        "violations": violations,
    }
    with open(os.path.join(EVIDENCE_DIR, prop + ".json"), "w") as f:
        json.dump(ev, f, indent=1)


if __name__ == "__main__":
    sys.exit(main() or 0)
