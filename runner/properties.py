"""Per-property text that goes into the evidence files (claims, bounds, what is outside)."""

TRUSTED = [
    "rustc (Kani's pinned nightly) MIR -> Kani 0.68 codegen -> CBMC 6.11 symbolic execution and bit-blasting -> cadical",
    "CBMC's pointer model: object id in the top 16 bits, offset in the low 48; distinct objects never abut",
    "dev-profile semantics: debug assertions and overflow checks ON (Kani's model of the crate)",
    "the code analysed is a verbatim copy of /repo's working tree (src/**, README.md, Cargo.lock) with #[cfg(kani)] include lines APPENDED; the scratch Cargo.toml allows the lint dangerous_implicit_autorefs (deny-by-default on this toolchain, not a semantic change)",
    "global allocator models (stubs of alloc::alloc::{alloc,dealloc}): A-cut (paths needing a new chunk excluded), A-null (refuses everything, logs requests), A-pool (<=3 concrete slots, symbolic refusal mask, symbolic displacement, ledger)",
    "ptr::copy / ptr::copy_nonoverlapping replaced by explicit loops (the latter asserting non-overlap) where listed in stubs_active",
    "representation invariant RI assumed for hand-made arena states (DESIGN 4.1), established by the real constructors in the F0 base-case harnesses",
    "the induction from base case + single step to arbitrary histories is a pen-and-paper argument (DESIGN 4.4), not machine-checked",
]

PROPS = {}


def P(pid, explanation, outside, assumptions=()):
    PROPS[pid] = {"explanation": explanation, "outside": list(outside), "assumptions": list(assumptions)}


P("C01",
  "Inductive step: from ANY valid chunk state (symbolic chunk start, usable size, bump position, chunk alignment) one allocation / "
  "deallocate / grow / shrink with a fully symbolic request returns a block inside the former free region of the chunk "
  "(hence inside held memory, below the footer and disjoint from every live block), or fails leaving the state unchanged; "
  "base case: the real constructors and the real new-chunk path establish the invariant.",
  ["chunks larger than the per-harness END bound (1 KiB quick; 16 KiB / 68 KiB thorough)", "alignments above 4096",
   "more than 2 chunks in the pre-state", "multi-step histories other than via the stated induction"])
