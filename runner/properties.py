"""Per-property text that goes into the evidence files (claims, bounds, what is outside)."""

TRUSTED = [
    "rustc (Kani's pinned nightly) MIR -> Kani 0.68 codegen -> CBMC 6.11 symbolic execution and bit-blasting -> cadical",
    "CBMC's pointer model: object id in the top 16 bits, offset in the low 48; distinct objects never abut",
    "dev-profile semantics: debug assertions and overflow checks ON (Kani's model of the crate)",
    "the code analysed is a verbatim copy of /repo's working tree (src/**, README.md, Cargo.lock) with #[cfg(kani)] include lines APPENDED; the scratch Cargo.toml allows the lint dangerous_implicit_autorefs (deny-by-default on this toolchain, not a semantic change)",
    "global allocator models (stubs of alloc::alloc::{alloc,dealloc}): A-cut (paths needing a new chunk excluded), A-null (refuses everything, logs requests), A-pool (<=3 concrete 1136-byte slots, symbolic refusal mask, block displacement 0/1/3 x alignment fixed per instance, end-aligned placement, ledger with double-free / foreign-free / layout-mismatch flags)",
    "ptr::copy / ptr::copy_nonoverlapping replaced by explicit loops (the latter asserting non-overlap) where listed in stubs_active",
    "representation invariant RI assumed for hand-made arena states (DESIGN 4.1), established by the real constructors in the F0 base-case harnesses",
    "the induction from base case + single step to arbitrary histories is a pen-and-paper argument (DESIGN 4.4), not machine-checked",
]

PROPS = {}


def P(pid, explanation, outside, assumptions=()):
    PROPS[pid] = {"explanation": explanation, "outside": list(outside), "assumptions": list(assumptions)}


P("C01",
  "Inductive step: from ANY valid chunk state (symbolic chunk start, usable size, bump position, chunk alignment) one allocation / "
  "deallocate / grow / shrink with a fully symbolic request returns a block inside the former free region of the chunk "
  "(hence inside held memory, below the footer and disjoint from every live block), or fails leaving the state unchanged; "
  "base case: the real constructors and the real new-chunk path establish the invariant.",
  ["chunks larger than the per-harness END bound (1 KiB quick; 16 KiB / 68 KiB thorough)", "alignments above 4096",
   "more than 2 chunks in the pre-state", "multi-step histories other than via the stated induction"])

P("C02",
  "Initialisation glue of every allocation method (alloc/_with, slice copy/clone/fill_with/fill_iter/fill_default/fill_copy/fill_clone, str and the try_ twins) "
  "decided on small concrete chunks with symbolic values: result equals the specification at a symbolic index, initialiser called once per element in index order, iterator consumed in order; "
  "grow/shrink keep the first min(old,new) bytes: the block either stays or exactly one copy of >= min(old,new) bytes goes from the old to the new block (range-recording copy stubs, any sizes), "
  "plus byte-level content harnesses on small blocks; frame: one allocation/realloc step never stores into the live region (concrete-offset probe bytes).",
  ["slices longer than 3 elements, strings longer than 3 bytes (loop length is the cost driver)", "contents beyond 16 bytes in the byte-level realloc harnesses",
   "correctness of memcpy/memmove themselves (substituted by loops / range stubs)"])

P("C03",
  "Release side: reset / drop / reset-alloc-drop over hand-made chunk lists of 0..3 chunks whose blocks are registered in the global-allocator ledger: every block freed exactly once, "
  "with the recorded layout, nothing foreign (static sentinel) freed, nothing live after drop, reset keeps exactly the current chunk. Acquire side: one real slow-path call / constructor under the "
  "pool model with a symbolic refusal mask: on success exactly one new ledger block, linked in front with the recorded layout; on failure no block obtained or freed. &self operations never free.",
  ["more than 3 chunks in a list, more than 8 global-allocator requests in one operation", "request sizes on the acquire side are concrete per instance (see bounds)",
   "'nothing is given back while a reference can be alive' beyond 'only reset(&mut self) and drop free' is the borrow checker's part (C05, not applicable)", "thread moves (a move is a memcpy for a sequential model)"])

P("C04",
  "Every pointer returned by allocate (fast path from any chunk state, all sizes, align <= 4096), grow, shrink and the new-chunk path is aligned to the requested alignment and to MIN_ALIGN for "
  "M in {1,2,4,8,16}; chunk requests carry align >= max(16, M, request) at full width; the static sentinel's type alignment covers every supported MIN_ALIGN; constructors with MIN_ALIGN in {0,3,24,32} do not return.",
  ["alignments above 4096", "the linker's actual placement of the static sentinel (CBMC places statics at 2^48-aligned addresses; the type-alignment fact is checked instead)",
   "new-chunk path: concrete request per instance"])

P("C06",
  "After reset (from hand-made lists of 0..3 registered chunks, any finger positions, any limit): iteration yields exactly the kept chunk with 0 allocated bytes, at most one ledger block is live, "
  "chunk_capacity equals the kept block's usable size and any request <= that capacity (size multiple of M, align <= M) is served with the global allocator forbidden, limit and min_align unchanged, "
  "second reset idempotent; chunk-less arena: reset touches nothing (no allocator call, sentinel pristine).",
  ["more than 3 chunks before reset, more than 2 resets, more than one follow-up request"])

P("C07",
  "Decision side at full 64-bit magnitudes (stand-alone footer, A-null): every chunk the slow path requests keeps held+usable <= limit, including limits below what is held and the small-limit bypass on a "
  "chunk-less arena; with no limit something is always attempted. Commit side (pool model): after acquiring a chunk allocated_bytes() <= limit. Fast path: a request that fits the current chunk "
  "(implementation's own padding rule) succeeds for every limit. Pure lemma: the limit filter admits exactly candidates within the headroom.",
  ["more than 5 halvings of the candidate size (ratio 2*current/max(request,448) >= 32)", "current chunk sizes above 2^56", "commit side: concrete request per instance, chunks <= 1 KiB"])

P("C08",
  "allocated_bytes_including_metadata() == sum of live ledger blocks and allocated_bytes() == that minus 48 per chunk: after the real constructors, after a real chunk acquisition, after reset (x2) on lists of 0..3 chunks; "
  "zero for chunk-less arenas; unchanged by every operation that obtained or released no chunk (snapshot around allocation / realloc / failed slow-path steps).",
  ["more than 3 chunks", "chunk sizes other than those the harness lists build (448/960/1984 usable) on the release side"])

P("C09",
  "Kani reports every reachable panic, overflow, failed debug assertion and out-of-bounds pointer operation as a failed check: the try_ entry points are run with symbolic requests (full width where no memory is touched) "
  "under refusing / partially refusing allocator models and must come back with zero failed checks and pass the unwinding assertions (termination); on Err: finger, current chunk, accounting, capacity and ledger unchanged; "
  "infallible twins: the post-call cover after an infallible call is unreachable exactly when the fallible twin fails (twin harnesses).",
  ["more than 5 halvings in the retry loop (F4), more than 8 allocator requests per operation", "release-profile-only behaviour (overflow checks off)", "commit side: concrete request per instance"])

P("C10",
  "Iterator: over hand-made lists of 1..3 chunks with symbolic fingers, iter_allocated_chunks and iter_allocated_chunks_raw yield the same sequence (finger, footer-finger) newest first, each inside its chunk, "
  "never the sentinel, read-only. Step lemma (from any chunk state): a successful request with M <= align <= 16, size and finger multiples of align is placed at finger-size exactly (no padding); "
  "a fresh chunk's first uniform object ends at the footer; failed initialisers rewind the finger.",
  ["more than 3 chunks", "the induction from the step lemma to 'slices contain exactly the objects' is on paper"])

P("C11",
  "alloc_try_with / try_alloc_try_with from an arbitrary state of a 256-byte chunk: initialiser run at most once and not at all if reservation fails, error payload delivered bit-identical and its destructor count is 0 before and 1 after the caller drops it, "
  "capacity and finger restored, follow-up request of the same layout served with the global allocator forbidden; new-chunk case (pool model) likewise; initialiser that allocates and keeps (block stays valid, untouched, not overlapped later) or allocates and releases (capacity restored); "
  "alloc_slice_try_fill_with/_iter with a symbolic failing index.",
  ["value types other than u64 / [u8;200], error types other than (u32, Drop-ledger) / u32", "slices longer than 3", "chunks larger than 256 bytes in the same-chunk harness"])

P("C12",
  "Through <&Bump<M> as allocator_api2::alloc::Allocator>: one deallocate / shrink / grow / grow_zeroed step on ANY live block (symbolic position, size, alignment; last or not) next to a representative other live block, "
  "new layout of any size and alignment <= 4096: result fits the new layout, lies in (former free space U old block), does not overlap the other block, finger never raised past a live block, prefix preserved via exactly one sufficient copy "
  "(copy_nonoverlapping asserted non-overlapping), on Err nothing moved or copied; deallocate of a non-last block changes nothing. grow_zeroed tail zero on small blocks.",
  ["chunks above 1 KiB", "multi-step interleavings other than via the stated induction", "allocator_api2 collections on top of the arena (consequence of the contract, not executed)", "the nightly allocator_api feature (same code, different import)"])

P("C18",
  "Lemmas: (1) constructors honour the capacity (real constructor, concrete capacities; size computation for all 64-bit capacities); (2) from any chunk state a uniform request lowers chunk_capacity() by exactly its size and any request "
  "that fits by the implementation's padding rule is served without the global allocator (chunk_capacity never overstates); (3) the first chunk requested is >= 2x the current one and >= the request, later attempts never grow, "
  "chunk sizes are monotone in the hint and within 2x+4096 of what was needed; (4) RawVec::amortized_new_size >= max(2*cap, used+extra) or error.",
  ["'logarithmically many requests' and 'constant-factor memory' follow from (3),(4) by a geometric-series argument on paper", "more than 5 halvings"])

P("C19",
  "Full-width size arithmetic: round_up_to is None exactly on overflow; new_chunk_memory_details never yields a size below the request or a wrapped total; constructors and slow path never pass a request above isize::MAX to the global allocator; "
  "slice/Vec entry points with any 64-bit count/capacity: 'returned normally and the reserved memory is smaller than count*size' is unsatisfiable.",
  ["current chunks above 2^56 bytes (doubling a chunk above 2^62 overflows OVERHEAD addition; unreachable on real machines)", "element sizes other than those instantiated"])

P("C20",
  "Sequential footprint only: one operation (allocation of any layout, set_allocation_limit, iteration, reset, drop) on arena A leaves every observable of arena B (capacity, accounting, limit, footer fields, finger, a probe byte) bit-identical, "
  "the shared static sentinel keeps its initial value and a monitor on Cell::set records no store into it (same-value stores included).",
  ["threads, schedules, Send hand-over and actual concurrent execution: Kani does not model threads; the footprint premise => race freedom step is on paper", "stores that bypass Cell::set are seen only by the value comparison"])

P("C13",
  "Single Vec<u8>/Vec<u32> operation from a small concrete shape (capacity 4, length 0..4) with symbolic element values and arguments against an array reference model: return value, contents at a symbolic index, length, capacity >= length, "
  "capacity >= len+additional after reserve; panic-iff for index-taking operations (post-call cover unreachable exactly when the index is out of range); neighbours (canary block, sibling Vec) unchanged across growth.",
  ["vectors longer than 4..8 elements", "multi-operation programs (single step + invariant only)", "splice, drain_filter with stateful predicates, collect_in size-hint games, vec! macro",
   "std::vec::Vec itself is not executed symbolically; the reference model is a 60-line array model", "release-only divergences (found only by native replay)"])

P("C14",
  "Single String operation on strings of <= 4 bytes (assumed valid UTF-8, all mixes of 1..4-byte characters that fit) with symbolic index/char: result bytes equal the byte-array model and are valid UTF-8; "
  "non-boundary or out-of-range index => the call does not return; utf8_char_width equals the RFC 3629 lead-byte classification for all 256 bytes; from_utf8 accepts iff core::str::from_utf8 does (<= 3 bytes); "
  "lossy decoder kernel vs <[u8]>::utf8_chunks on short inputs.",
  ["strings longer than 4 bytes, decoder inputs longer than 3 bytes", "format!, extend, from_utf16 beyond 2 units", "multi-operation programs"])

P("C15",
  "Vec<D> with 3 identified elements (drop ledger): one operation (pop, remove, swap_remove, truncate, clear, drain consumed j then dropped, into_iter consumed front/back then dropped, retain(mask), dedup, split_off, "
  "into_boxed_slice, into_bump_slice, mem::forget(drain)), then container drop, then arena reset/drop: every counter ends at exactly 1 (0 for documented leaks), never 2, and is 0 while the element is still reachable.",
  ["more than 3 elements, more than one operation", "Splice / DrainFilter beyond the listed shapes"])

P("C17",
  "Box::new_in derefs to the value; eq/ord/hash agree; drop runs the destructor once, makes no allocator call and leaves the finger; into_inner / into_raw+from_raw / leak round trips preserve the value and drop nothing early; "
  "downcast is Ok with the same value iff the type matches; Box<[T;3]> <-> Box<[T]> and Vec -> boxed slice keep order, each element dropped once.",
  ["Future/Iterator/fmt forwarding (pure delegation)", "unsized boxes other than slices and dyn Any"])
