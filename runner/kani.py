"""Run one Kani harness on the scratch crate and parse the per-check output."""
import os
import re
import resource
import shutil
import signal
import subprocess
import time

FEATURES = "collections,boxed,allocator-api2"

CHECK_RE = re.compile(r"^Check (\d+): (.*?)\s*$")
STATUS_RE = re.compile(r"^\s+- Status: (\S+)")
DESC_RE = re.compile(r"^\s+- Description: \"(.*)\"\s*$")
LOC_RE = re.compile(r"^\s+- Location: (.*)$")
STUB_RE = re.compile(r"^\s*- Stub: (.*)$")
SUMMARY_RE = re.compile(r"\*\* (\d+) of (\d+) failed(?: \((.*)\))?")
COVER_SUM_RE = re.compile(r"\*\* (\d+) of (\d+) cover properties satisfied")
VTIME_RE = re.compile(r"^Verification Time: ([0-9.]+)s")
SOLVER_RE = re.compile(r"^Runtime Solver: ([0-9.eE+-]+)s")
SYMEX_RE = re.compile(r"^Runtime Symex: ([0-9.eE+-]+)s")
VARS_RE = re.compile(r"^(\d+) variables, (\d+) clauses")


def _limits(mem_gb):
    def f():
        os.setsid()
        if mem_gb:
            b = int(mem_gb * (1 << 30))
            resource.setrlimit(resource.RLIMIT_AS, (b, b))
    return f


def cargo_env():
    env = dict(os.environ)
    env["CARGO_NET_OFFLINE"] = "true"
    env.pop("RUSTFLAGS", None)
    env.pop("RUSTUP_TOOLCHAIN", None)
    env["CARGO_TERM_COLOR"] = "never"
    return env


def parse_log(text):
    checks = []
    cur = None
    stubs = []
    res = {
        "verdict_line": None, "failed": None, "total": None, "vtime": None,
        "solver_s": 0.0, "symex_s": 0.0, "vars": 0, "clauses": 0, "solver_calls": 0,
        "covers_sat": None, "covers_total": None,
    }
    compile_error = False
    pending_desc = None
    for line in text.splitlines():
        if pending_desc is not None:
            # multi-line description: continues until a line ending with the closing quote
            if line.rstrip().endswith('"'):
                pending_desc.append(line.rstrip()[:-1])
                if cur is not None:
                    cur["desc"] = " ".join(x.strip() for x in pending_desc)
                pending_desc = None
            else:
                pending_desc.append(line)
            continue
        m = CHECK_RE.match(line)
        if m:
            cur = {"n": int(m.group(1)), "name": m.group(2), "status": None, "desc": "", "loc": ""}
            checks.append(cur)
            continue
        if cur is not None:
            m = STATUS_RE.match(line)
            if m:
                cur["status"] = m.group(1)
                continue
            m = DESC_RE.match(line)
            if m:
                cur["desc"] = m.group(1)
                continue
            if line.startswith("\t - Description: \"") and not line.rstrip().endswith('"'):
                pending_desc = [line.split('Description: "', 1)[1]]
                continue
            m = LOC_RE.match(line)
            if m:
                cur["loc"] = m.group(1).strip()
                continue
        m = STUB_RE.match(line)
        if m:
            stubs.append(re.sub(r"\s+", "", m.group(1)))
            continue
        m = SUMMARY_RE.search(line)
        if m:
            res["failed"], res["total"] = int(m.group(1)), int(m.group(2))
            continue
        m = COVER_SUM_RE.search(line)
        if m:
            res["covers_sat"], res["covers_total"] = int(m.group(1)), int(m.group(2))
            continue
        if line.startswith("VERIFICATION:-"):
            res["verdict_line"] = line.split(":-")[1].strip()
            continue
        m = VTIME_RE.match(line)
        if m:
            res["vtime"] = float(m.group(1))
            continue
        m = SOLVER_RE.match(line)
        if m:
            res["solver_s"] += float(m.group(1))
            res["solver_calls"] += 1
            continue
        m = SYMEX_RE.match(line)
        if m:
            res["symex_s"] += float(m.group(1))
            continue
        m = VARS_RE.match(line)
        if m:
            res["vars"], res["clauses"] = int(m.group(1)), int(m.group(2))
            continue
        if line.startswith("error") and ("could not compile" in line or "Failed to execute cargo" in line or line.startswith("error[")):
            compile_error = True
    res["checks"] = checks
    res["stubs"] = stubs
    res["compile_error"] = compile_error
    return res


def is_cover(c):
    return ".cover." in c["name"] or c["status"] in ("SATISFIED", "UNSATISFIABLE")


def run(crate_dir, target_dir, harness_path, log_path, timeout_s, mem_gb, extra_args=()):
    cmd = ["cargo", "kani", "-Z", "stubbing", "--features", FEATURES,
           "--target-dir", target_dir, "--harness", harness_path, "--exact"] + list(extra_args)
    t0 = time.time()
    timed_out = False
    with open(log_path, "w") as lf:
        p = subprocess.Popen(cmd, cwd=crate_dir, stdout=lf, stderr=subprocess.STDOUT,
                             env=cargo_env(), preexec_fn=_limits(mem_gb))
        try:
            rc = p.wait(timeout=timeout_s)
        except subprocess.TimeoutExpired:
            timed_out = True
            try:
                os.killpg(p.pid, signal.SIGKILL)
            except ProcessLookupError:
                pass
            rc = p.wait()
    wall = time.time() - t0
    with open(log_path, errors="replace") as f:
        text = f.read()
    r = parse_log(text)
    r["rc"] = rc
    r["wall_s"] = wall
    r["timed_out"] = timed_out
    r["oom"] = ("std::bad_alloc" in text) or ("Out of memory" in text) or ("out of memory" in text and r["verdict_line"] is None and "CBMC failed" in text)
    r["cmd"] = " ".join(cmd)
    return r


def warm_build(crate_dir, target_dir, log_path, timeout_s=900):
    """Compile the scratch crate (all harness code is type-checked) by running a trivial harness."""
    cmd = ["cargo", "kani", "-Z", "stubbing", "--features", FEATURES, "--target-dir", target_dir,
           "--harness", "__verif::common::warm", "--exact"]
    t0 = time.time()
    with open(log_path, "w") as lf:
        p = subprocess.Popen(cmd, cwd=crate_dir, stdout=lf, stderr=subprocess.STDOUT, env=cargo_env(),
                             preexec_fn=_limits(0))
        try:
            rc = p.wait(timeout=timeout_s)
        except subprocess.TimeoutExpired:
            try:
                os.killpg(p.pid, signal.SIGKILL)
            except ProcessLookupError:
                pass
            rc = -9
    with open(log_path, errors="replace") as f:
        text = f.read()
    ok = rc == 0 and "VERIFICATION:- SUCCESSFUL" in text
    errs = [l for l in text.splitlines() if l.startswith("error")]
    tail = "\n".join(errs[:20]) if errs else "\n".join(text.splitlines()[-25:])
    return {"ok": ok, "rc": rc, "tail": tail, "wall_s": time.time() - t0}
