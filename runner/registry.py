"""Harness registry: which Kani harness serves which property in which tier,
with its bounds (for the evidence), budget and expected-failure allow-list.

A harness is listed as
    H(name, mod, family, quick=[props], thorough=[props], ...)
`thorough` is implicitly a superset of `quick`.
"""

ALL = []


class H:
    def __init__(self, name, mod, family, quick=(), thorough=(), timeout=600, mem_gb=10,
                 allow=(), canary=None, stubs=(), bounds=None, funcs=(), inst="",
                 unwind_is_claim=False, extra_args=(), cost=30, note="", exempt=(), mem_need=3):
        self.name = name
        self.mod = mod
        self.family = family
        self.quick = set(quick)
        self.thorough = set(thorough) | set(quick)
        self.timeout = timeout
        self.mem_gb = mem_gb
        self.allow = list(allow)          # regexes: failed-check descriptions that are EXPECTED
        self.canary = canary              # regex: this harness MUST fail with such a description
        self.stubs = list(stubs)          # substrings that must appear in Kani's "- Stub:" lines
        self.bounds = bounds or {}
        self.funcs = list(funcs)
        self.inst = inst
        self.unwind_is_claim = unwind_is_claim
        self.extra_args = list(extra_args)
        self.cost = cost                  # rough seconds, for scheduling (longest first)
        self.note = note
        self.mem_need = mem_need if (mem_need != 3 or mem_gb <= 10) else 5  # expected peak RSS in GB (admission control)
        self.exempt = list(exempt)       # regexes: REACH covers that this instance cannot reach by construction
        ALL.append(self)

    @property
    def path(self):
        return self.mod + "::" + self.name


STUB_NULL = ["core_alloc::alloc::alloc->alloc_null", "core_alloc::alloc::dealloc->dealloc_count"]
STUB_CUT = ["core_alloc::alloc::alloc->alloc_cut", "core_alloc::alloc::dealloc->dealloc_count"]

MS = [1, 2, 4, 8, 16]

# ---------------------------------------------------------------------------
# F1 step-alloc
# ---------------------------------------------------------------------------
F1_FUNCS = ["Bump::try_alloc_layout", "Bump::try_alloc_layout_fast", "Bump::alloc_layout_slow",
            "Bump::new_chunk_memory_details", "Bump::chunk_fits_under_limit",
            "Bump::allocation_limit_remaining", "Bump::chunk_capacity", "round_up_to"]
for m in MS:
    H("f1_fast_m%d_1k" % m, "__verif::f1", "F1",
      quick=(["C01", "C04", "C10", "C18"] if m in (1, 8, 16) else []) + (["C19"] if m == 1 else []),
      thorough=["C01", "C04", "C10", "C18", "C19"],
      timeout=600, cost=30, stubs=STUB_CUT, inst="Bump<%d>" % m, funcs=F1_FUNCS, exempt=[r"\[err\]"],
      bounds={"chunk_usable_bytes": "16..1024 (symbolic)", "chunk_base_residue": "any multiple of 16 below 1024",
              "request_size": "any usize accepted by Layout", "request_align": "1..4096", "allocator": "A-cut (slow path excluded)",
              "limit": "None", "unwind": 3})
    H("f1_alloc_m%d_1k" % m, "__verif::f1", "F1",
      quick=["C09", "C07"] if m in (1, 16) else [],
      thorough=["C01", "C04", "C07", "C09", "C18"],
      timeout=900, cost=60, stubs=STUB_NULL, inst="Bump<%d>" % m, funcs=F1_FUNCS,
      bounds={"chunk_usable_bytes": "16..1024 (symbolic)", "request_size": "any usize accepted by Layout",
              "request_align": "1..4096", "allocator": "A-null (refuses everything, logged)",
              "limit": "any Option<usize>", "unwind": 6})
    H("f1_fast_m%d_16k" % m, "__verif::f1", "F1",
      thorough=["C01", "C04", "C10", "C18"],
      timeout=1200, cost=60, stubs=STUB_CUT, inst="Bump<%d>" % m, funcs=F1_FUNCS, exempt=[r"\[err\]"],
      bounds={"chunk_usable_bytes": "16..16384 (symbolic)", "chunk_base_residue": "every multiple of 16 mod 4096",
              "request_size": "any usize accepted by Layout", "request_align": "1..4096", "allocator": "A-cut",
              "limit": "None", "unwind": 3})


for m in (1, 16):
    H("f1_alloc_m%d_16k" % m, "__verif::f1", "F1", thorough=["C01", "C07", "C09", "C18"], timeout=2400, mem_gb=16, cost=300, stubs=STUB_NULL,
      inst="Bump<%d>" % m, funcs=F1_FUNCS,
      bounds={"chunk_usable_bytes": "16..16384 (symbolic)", "request_size": "any usize accepted by Layout", "request_align": "1..4096",
              "allocator": "A-null (refuses everything, logged)", "limit": "any Option<usize>", "unwind": 10})
for m in (1, 16):
    H("f1_fast_m%d_68k" % m, "__verif::f1", "F1", thorough=["C01", "C04", "C10", "C18"], timeout=2400, mem_gb=16, cost=200, stubs=STUB_CUT,
      inst="Bump<%d>" % m, funcs=F1_FUNCS, exempt=[r"\[err\]"],
      bounds={"chunk_usable_bytes": "16..69632 (symbolic)", "request_size": "any usize accepted by Layout", "request_align": "1..4096", "allocator": "A-cut", "limit": "None", "unwind": 3})

# ---------------------------------------------------------------------------
# F5 pure kernels (full 64-bit width)
# ---------------------------------------------------------------------------
H("f5_round_up_to", "__verif::f5", "F5", quick=["C19", "C04"], cost=5, inst="-",
  funcs=["round_up_to"], bounds={"n": "any usize", "divisor": "2^0..2^63"})
H("f5_fits_under_limit", "__verif::f5", "F5", quick=["C07"], cost=3, inst="Bump<1> (function does not depend on MIN_ALIGN)",
  funcs=["Bump::chunk_fits_under_limit"], bounds={"headroom": "any Option<usize>", "candidate": "any sizes"})
for m in (1, 8, 16):
    H("f5_details_m%d" % m, "__verif::f5", "F5", quick=["C04", "C18", "C19", "C09"] if m in (1, 16) else [],
      thorough=["C04", "C18", "C19", "C01", "C09"], cost=10, inst="Bump<%d>" % m,
      funcs=["Bump::new_chunk_memory_details", "round_up_to"],
      bounds={"request": "any valid Layout, align <= 4096", "size_hint": "None or any value <= 2^57 or <= request size"})
    H("f5_monotone_m%d" % m, "__verif::f5", "F5", quick=["C18"] if m == 1 else [], thorough=["C18"], cost=10,
      inst="Bump<%d>" % m, funcs=["Bump::new_chunk_memory_details"],
      bounds={"request": "any valid Layout, align <= 4096", "size_hints": "h1 <= h2 <= 2^57"})


# ---------------------------------------------------------------------------
# F2 step-dealloc / shrink / grow through `Allocator for &Bump<M>` (placement variant)
# ---------------------------------------------------------------------------
STUB_COPY_RANGE = ["core::ptr::copy_nonoverlapping->cno_range_only", "core::ptr::copy->copy_range_only"]
F2_FUNCS = ["<&Bump<M> as Allocator>::{deallocate,shrink,grow}", "Bump::dealloc", "Bump::shrink", "Bump::grow",
            "Bump::is_last_allocation", "Bump::try_alloc_layout_fast", "round_mut_ptr_up_to_unchecked", "round_down_to"]
for m in MS:
    for op in ("dealloc", "shrink", "grow"):
        H("f2_%s_m%d_1k" % (op, m), "__verif::f2", "F2",
          quick=(["C12", "C01"] if m in (1, 16) else []) + (["C04"] if (m == 8 and op != "dealloc") else []) + (["C02"] if (m == 1 and op != "dealloc") else []),
          thorough=["C01", "C02", "C04", "C12"], timeout=900, cost=40,
          stubs=STUB_CUT + STUB_COPY_RANGE, inst="&Bump<%d>" % m, funcs=F2_FUNCS,
          exempt=[r"\[fail\]"] + ([r"\[(realloc|shrink|grow)\]"] if op == "dealloc" else [r"\[dealloc\]"]),
          bounds={"chunk_usable_bytes": "16..1024 (symbolic)", "operated_block": "any live block (any offset/size in the allocated region, align <= 4096), last or not",
                  "other_live_block": "any (symbolic range, disjoint)", "new_layout": "any size/align <= 4096 (>= old for grow, <= old for shrink)",
                  "allocator": "A-cut", "copies": "range-recording stubs; copy_nonoverlapping asserts non-overlap", "unwind": 3})
for (op, m) in (("dealloc", 1), ("shrink", 1), ("grow", 1), ("shrink", 16), ("grow", 16)):
    H("f2_%s_m%d_16k" % (op, m), "__verif::f2", "F2", thorough=["C01", "C02", "C04", "C12"], timeout=2400, mem_gb=16, cost=150,
      stubs=STUB_CUT + STUB_COPY_RANGE, inst="&Bump<%d>" % m, funcs=F2_FUNCS,
      exempt=[r"\[fail\]"] + ([r"\[(realloc|shrink|grow)\]"] if op == "dealloc" else [r"\[dealloc\]"]),
      bounds={"chunk_usable_bytes": "16..16384 (symbolic)", "operated_block": "any live block", "new_layout": "any size/align <= 4096", "allocator": "A-cut", "unwind": 3})
for nm, m in (("f2_shrink_null_m1_1k", 1), ("f2_grow_null_m1_1k", 1), ("f2_grow_null_m16_1k", 16)):
    H(nm, "__verif::f2", "F2", quick=["C12"] if nm == "f2_grow_null_m1_1k" else [], thorough=["C12", "C09"], timeout=1200, cost=90,
      stubs=STUB_NULL + STUB_COPY_RANGE, inst="&Bump<%d>" % m, funcs=F2_FUNCS + ["Bump::alloc_layout_slow"], exempt=[r"\[dealloc\]"],
      bounds={"chunk_usable_bytes": "16..1024 (symbolic)", "allocator": "A-null (refuses everything)", "limit": "any Option<usize>", "unwind": 6})


for nm, m, q in (("grow_last", 1, ["C02"]), ("grow_notlast", 1, []), ("grow_zeroed_last", 1, ["C12"]), ("grow_zeroed_notlast", 1, ["C12"]),
                  ("grow_zeroed_last", 8, []), ("shrink_last", 1, ["C02"]), ("shrink_last", 4, [])):
    H("f2c_%s_m%d" % (nm, m), "__verif::f2c", "F2", quick=q, thorough=["C02", "C12"], timeout=1800, cost=90, mem_gb=12,
      stubs=STUB_CUT + ["core::ptr::copy_nonoverlapping->cno_loop", "core::ptr::copy->copy_loop"], inst="&Bump<%d>" % m,
      funcs=["<&Bump<M> as Allocator>::{grow,grow_zeroed,shrink}", "Bump::grow", "Bump::shrink"],
      bounds={"chunk": "256 bytes, concrete positions", "old_size": "0..8", "new_size": "0..16", "alignments": "1..8", "contents": "symbolic", "neighbour": "4 bytes directly above"})

# ---------------------------------------------------------------------------
# F4 slow-decide (full-width magnitudes, A-null)
# ---------------------------------------------------------------------------
F4_FUNCS = ["Bump::alloc_layout_slow", "Bump::allocation_limit_remaining", "Bump::chunk_fits_under_limit",
            "Bump::new_chunk_memory_details", "Bump::new_chunk (up to the refused global-allocator call)"]
for m in (1, 8, 16):
    H("f4_decide_m%d" % m, "__verif::f4", "F4", quick=["C07", "C18"] + (["C09"] if m == 1 else []), thorough=["C07", "C09", "C18", "C19"],
      timeout=1200, cost=80, stubs=STUB_NULL, inst="Bump<%d>" % m, funcs=F4_FUNCS, unwind_is_claim=True,
      bounds={"current_chunk_usable": "16..2^56, multiple of 16", "held_bytes": "usable..2^57", "limit": "any Option<usize>",
              "request": "any valid Layout, align <= 4096", "halvings": "<= 5 (ratio 2*usable/max(size,448) < 32)", "unwind": 8,
              "allocator": "A-null"})
    H("f4_fresh_m%d" % m, "__verif::f4", "F4", quick=["C07", "C09"] if m == 1 else [], thorough=["C07", "C09", "C18"],
      timeout=1200, cost=60, stubs=STUB_NULL, inst="Bump<%d>" % m, funcs=F4_FUNCS, unwind_is_claim=True,
      bounds={"arena": "chunk-less (static sentinel)", "limit": "any Option<usize>", "request_size": "1..4096", "request_align": "<= 4096",
              "unwind": 16, "allocator": "A-null"})
    H("f4_fresh_zst_m%d" % m, "__verif::f4", "F4", quick=["C09"] if m == 1 else [], thorough=["C07", "C09"],
      timeout=1200, cost=60, stubs=STUB_NULL, inst="Bump<%d>" % m, funcs=F4_FUNCS, unwind_is_claim=True,
      bounds={"arena": "chunk-less (static sentinel)", "limit": "any Option<usize>", "request_size": "0", "request_align": "<= 4096",
              "unwind": 16, "allocator": "A-null"})


# ---------------------------------------------------------------------------
# F6 lifecycle: reset / drop over hand-made, ledger-registered chunk lists
# ---------------------------------------------------------------------------
STUB_POOL = ["core_alloc::alloc::alloc->alloc_pool", "core_alloc::alloc::dealloc->dealloc_pool"]
F6_FUNCS = ["Bump::reset", "<Bump as Drop>::drop", "dealloc_chunk_list", "Bump::allocated_bytes", "Bump::allocated_bytes_including_metadata",
            "Bump::iter_allocated_chunks", "ChunkRawIter::next", "Bump::chunk_capacity", "Bump::try_alloc_layout"]
for (m, k) in [(1, 0), (1, 1), (1, 2), (1, 3), (16, 0), (16, 1), (16, 2), (16, 3), (8, 2), (8, 3), (4, 3), (2, 3)]:
    q = []
    if (m, k) in [(1, 0), (1, 2), (16, 3)]:
        q = ["C03", "C06", "C08"]
    if (m, k) == (1, 2):
        q = q + ["C10"]
    if (m, k) == (1, 1):
        q = ["C07"]
    H("f6_life_m%d_k%d" % (m, k), "__verif::f6", "F6", quick=q, thorough=["C03", "C06", "C08"], timeout=1500, cost=70 + 30 * k,
      stubs=STUB_POOL, inst="Bump<%d>" % m, funcs=F6_FUNCS, exempt=[r"whole capacity handed out again"] if k == 0 else [],
      bounds={"chunks_before": k, "chunk_usable_sizes": [448, 960, 1984][:k], "finger_positions": "any (symbolic, per chunk)",
              "limit": "any Option<usize>", "scenario": "symbolic choice of {drop, reset.drop, reset.reset.drop, reset.alloc(any size <= capacity).drop}",
              "allocator": "A-pool ledger (hand-made chunks registered as handed out)", "unwind": 5})


for nm, m, k, ca in (("f6_life_m1_k1_a128", 1, 1, 128), ("f6_life_m8_k2_a256", 8, 2, 256)):
    H(nm, "__verif::f6", "F6", quick=["C06"] if ca == 128 else [], thorough=["C03", "C06", "C08", "C10"], timeout=1500, cost=100, stubs=STUB_POOL, inst="Bump<%d>" % m, funcs=F6_FUNCS,
      bounds={"chunks_before": k, "current_chunk_alignment": ca, "finger_positions": "any", "limit": "any Option<usize>", "scenario": "as the other F6 instances"})

# ---------------------------------------------------------------------------
# F3 slow-commit: one real try_alloc_layout acquiring a chunk from A-pool
# ---------------------------------------------------------------------------
F3_FUNCS = ["Bump::try_alloc_layout", "Bump::alloc_layout_slow", "Bump::new_chunk", "Bump::new_chunk_memory_details",
            "Bump::allocation_limit_remaining", "Bump::chunk_fits_under_limit", "Bump::try_alloc_layout_fast",
            "Bump::allocated_bytes", "Bump::allocated_bytes_including_metadata"]
# (M, K, size, align, displacement, finger offset, unwind, limit or None=symbolic, exempt REACH covers)
F3_LIST = [
    (1, 1, 400, 1, 0, 8, 5, None, []),
    (1, 1, 24, 8, 1, 16, 5, None, []),
    (8, 1, 100, 4, 3, 96, 5, None, []),
    (16, 1, 1, 1, 1, 0, 5, None, []),
    (1, 1, 64, 64, 1, 32, 5, None, []),
    (1, 1, 0, 1, 0, 0, 5, None, [r"new chunk obtained|request failed"]),
    (1, 1, 900, 16, 3, 448, 5, None, []),
    (8, 1, 448, 1, 0, 0, 5, None, []),
    (1, 2, 700, 8, 1, 600, 5, None, []),
    (16, 2, 700, 32, 1, 96, 5, None, []),
    (1, 0, 5, 1, 1, 0, 4, None, []),
    (16, 0, 0, 64, 1, 0, 4, None, []),
    (4, 0, 300, 2, 3, 0, 4, None, []),
    (1, 0, 64, 64, 1, 0, 4, None, []),
    (1, 0, 5, 1, 0, 0, 14, 100, []),
    (8, 0, 0, 8, 1, 0, 14, 64, []),
    (1, 0, 1, 1, 0, 0, 14, 10, [r"new chunk obtained"]),
]
F3_QUICK = {(1, 1, 400, 1, None): ["C01", "C03", "C07", "C08", "C09", "C18"], (16, 1, 1, 1, None): ["C04", "C03"],
            (4, 0, 300, 2, None): ["C01", "C08", "C09"], (1, 0, 5, 1, 100): ["C07"], (8, 1, 100, 4, None): ["C04"],
            (8, 1, 448, 1, None): ["C09", "C18"]}
for (m, k, sz, al, dp, off, uw, lim, ex) in F3_LIST:
    nm = "f3_commit_m%d_k%d_s%d_a%d_d%d" % (m, k, sz, al, dp) + ("" if lim is None else "_l%d" % lim)
    H(nm, "__verif::f3", "F3",
      quick=F3_QUICK.get((m, k, sz, al, lim), []),
      thorough=["C01", "C03", "C04", "C07", "C08", "C09", "C10", "C18"], timeout=3000, mem_gb=24, cost=120, mem_need=11,
      stubs=STUB_POOL, inst="Bump<%d>" % m, funcs=F3_FUNCS, unwind_is_claim=True, exempt=ex,
      bounds={"chunks_before": k, "finger_of_current_chunk": "offset %d (concrete per instance)" % off,
              "request": "size %d align %d (concrete per instance; all-size arithmetic is decided by F1/F4/F5)" % (sz, al),
              "limit": "any Option<usize>" + (" (>= 448 when set: bypass excluded)" if k == 0 else "") if lim is None else "Some(%d)" % lim,
              "refusal_mask": "any subset of the first 8 global-allocator requests (symbolic)",
              "block_displacement": "%d x requested chunk alignment (concrete per instance)" % dp, "pool_slot_bytes": 1136,
              "block_placement": "end-aligned in the slot", "unwind": uw})


for m in (1, 16):
    H("f3_new_chunk_prev_m%d" % m, "__verif::f3", "F3", quick=["C03"] + (["C08"] if m == 1 else ["C07", "C08"]), thorough=["C03", "C07", "C08", "C10"], timeout=900, cost=20, stubs=STUB_POOL,
      inst="Bump<%d>" % m, funcs=["Bump::new_chunk", "Bump::new_chunk_memory_details"], exempt=[r"chunk created and released"],
      bounds={"predecessor": "one registered 448-byte chunk (m1) / a list of two registered chunks (m16), fingers anywhere (incl. completely unused)", "request": "concrete"})
for (m, sz, al, dp) in [(1, 64, 64, 1), (1, 10, 32, 3), (16, 100, 8, 1), (8, 600, 128, 0)]:
    H("f3_new_chunk_m%d_s%d_a%d_d%d" % (m, sz, al, dp), "__verif::f3", "F3", quick=["C03", "C04", "C08"] if al >= 32 else ["C03"], thorough=["C01", "C03", "C04", "C08"],
      timeout=900, cost=15, stubs=STUB_POOL, inst="Bump<%d>" % m, funcs=["Bump::new_chunk", "Bump::new_chunk_memory_details", "dealloc_chunk_list"],
      exempt=[r"behind a predecessor|predecessor completely unused"],
      bounds={"request": "size %d align %d (concrete)" % (sz, al), "block_displacement": "%d x alignment" % dp})

# ---------------------------------------------------------------------------
# F0 base case: real constructors
# ---------------------------------------------------------------------------
F0_FUNCS = ["Bump::with_min_align", "Bump::try_with_min_align_and_capacity", "Bump::new_chunk", "Bump::new_chunk_memory_details", "<Bump as Drop>::drop"]
for m in MS:
    H("f0_empty_m%d" % m, "__verif::f0", "F0", quick=["C04"] + (["C03", "C08", "C06"] if m == 1 else []), thorough=["C03", "C04", "C08", "C18", "C20"],
      cost=10, stubs=STUB_POOL, inst="Bump<%d>" % m, funcs=F0_FUNCS, bounds={"constructor": "with_min_align(), try_with_min_align_and_capacity(0)"})
for m in (0, 3, 24, 32):
    H("f0_invalid_m%d" % m, "__verif::f0", "F0", quick=["C04", "C03"], cost=5, stubs=STUB_NULL, inst="Bump<%d>" % m, funcs=F0_FUNCS,
      allow=[r"MIN_ALIGN"],
      bounds={"constructor": "with_min_align() and try_with_min_align_and_capacity(any capacity)", "expectation": "does not return (panic)"})
for (m, c, d) in [(1, 1, 0), (1, 100, 1), (8, 448, 3), (16, 449, 1), (2, 960, 0), (4, 500, 1)]:
    H("f0_cap_m%d_c%d_d%d" % (m, c, d), "__verif::f0", "F0",
      quick={(1, 100): ["C18", "C03", "C08"], (16, 449): ["C18", "C04"], (8, 448): ["C01"]}.get((m, c), []),
      thorough=["C01", "C03", "C04", "C08", "C18"], cost=40, timeout=900, stubs=STUB_POOL, inst="Bump<%d>" % m, funcs=F0_FUNCS,
      bounds={"capacity": "%d (concrete per instance)" % c, "block_displacement": "%d x alignment" % d, "refusal_mask": "symbolic"})
for m in (1, 16):
    H("f0_cap_any_m%d" % m, "__verif::f0", "F0", quick=["C19", "C09"] + (["C18"] if m == 1 else []), thorough=["C09", "C18", "C19"], cost=20,
      stubs=STUB_NULL, inst="Bump<%d>" % m, funcs=F0_FUNCS, bounds={"capacity": "any usize", "allocator": "A-null"})

for m in (1, 8):
    H("f0_ctor_twin_m%d" % m, "__verif::f0", "F0", quick=["C09"] if m == 1 else [], thorough=["C09", "C19"], cost=10, stubs=STUB_NULL, inst="Bump<%d>" % m,
      funcs=["Bump::with_min_align_and_capacity", "Bump::try_with_min_align_and_capacity", "oom()"], allow=[r"^out of memory$|requested allocation size overflowed"],
      bounds={"capacity": "any usize > 0", "allocator": "A-null", "expectation": "infallible constructor does not return"})
H("f0_sentinel_align", "__verif::f0", "F0", quick=["C04"], thorough=["C04", "C20"], cost=3, inst="-", funcs=["static EMPTY_CHUNK"],
  bounds={"fact": "align_of_val(&EMPTY_CHUNK) >= 16 (compile-time layout fact; CBMC cannot observe the linker's placement)"})

# ---------------------------------------------------------------------------
# F8 chunk iteration
# ---------------------------------------------------------------------------
for (m, k) in [(1, 1), (1, 2), (1, 3), (8, 2), (16, 3)]:
    H("f8_iter_m%d_k%d" % (m, k), "__verif::f8", "F8", quick=["C10"] if (m, k) in [(1, 2), (16, 3)] else [], thorough=["C10"], cost=30,
      stubs=STUB_CUT, inst="Bump<%d>" % m, funcs=["Bump::iter_allocated_chunks", "Bump::iter_allocated_chunks_raw", "ChunkRawIter::next", "ChunkIter::next", "ChunkFooter::as_raw_parts"],
      bounds={"chunks": k, "finger_positions": "any (symbolic per chunk)", "chunk_usable_sizes": [448, 960, 1984][:k]})


# ---------------------------------------------------------------------------
# F7 init glue (C02) and failed-initialiser protocol (C11)
# ---------------------------------------------------------------------------
STUB_CNO_LOOP = ["core::ptr::copy_nonoverlapping->cno_loop"]
F7TW = ["Bump::alloc_try_with", "Bump::try_alloc_try_with", "Bump::alloc_with", "Bump::try_alloc_with", "Bump::is_last_allocation", "Bump::try_alloc_layout"]
def _f7(name, quick, thorough, stubs, funcs, bounds, inst, cost=40, allow=(), exempt=()):
    H(name, "__verif::f7", "F7", quick=quick, thorough=thorough, timeout=1500, cost=cost, stubs=stubs, inst=inst, funcs=funcs, bounds=bounds, allow=allow, exempt=exempt)
for m in (1, 8, 16):
    _f7("f7_tw_same_try_m%d" % m, (["C11"] if m in (1, 16) else []) + (["C04"] if m == 16 else []), ["C11", "C02", "C09", "C04"], STUB_NULL, F7TW,
        {"chunk": "256-byte chunk, symbolic start/finger", "value": "Result<u64, E(u32, D)>", "initialiser": "fails or succeeds (symbolic)", "allocator": "A-null"}, "Bump<%d>, T=u64, E=(u32, Drop-ledger)" % m, cost=120)
for m in (1, 16):
    _f7("f7_tw_same_inf_m%d" % m, ["C11"] if m == 1 else [], ["C11", "C02"], STUB_CUT, F7TW,
        {"chunk": "256-byte chunk, symbolic start/finger", "value": "Result<u64, E(u32, D)>", "allocator": "A-cut"}, "Bump<%d>, alloc_try_with" % m, cost=120)
for nm, m in (("f7_tw_newchunk_try_m8", 8), ("f7_tw_newchunk_inf_m16", 16), ("f7_tw_newchunk_inf_m16_first", 16)):
    _f7(nm, (["C11", "C03", "C08"] + (["C10"] if nm.endswith("_first") else [])) if m == 16 else (["C11", "C01"] if m == 8 else []), ["C11", "C10", "C03", "C08", "C01"], STUB_POOL, F7TW + ["Bump::alloc_layout_slow", "Bump::new_chunk"],
        {"pre_state": "one 448-byte chunk with 16 bytes free (concrete)", "value": "Result<[u8;200], E>", "allocator": "A-pool, nothing refused"}, "Bump<%d>" % m, cost=60, allow=[r"^out of memory$"],
        exempt=[] if nm.endswith("_first") else [r"failed initialiser after a new chunk"])
for nm, m, q in (("f7_tw_newchunk_nested_inf_m16", 16, ["C11", "C01"]), ("f7_tw_newchunk_nested_try_m4", 4, []), ("f7_try_fill_newchunk_m4", 4, []), ("f7_try_fill_newchunk_m16", 16, ["C10", "C11"])):
    _f7(nm, q, ["C01", "C10", "C11", "C02"], STUB_POOL, F7TW + ["Bump::alloc_slice_try_fill_with", "Bump::alloc_layout_slow", "Bump::new_chunk"],
        {"pre_state": "one 448-byte chunk, 16 (0) bytes free (concrete)", "scenario": nm, "allocator": "A-pool, nothing refused"}, "Bump<%d>" % m, cost=60)
for nm, m in (("f7_tw_nested_keep_m1", 1), ("f7_tw_nested_keep_m16", 16), ("f7_tw_nested_release_m1", 1), ("f7_tw_nested_release_m8", 8)):
    _f7(nm, (["C11", "C10"] if "keep" in nm else ["C11"]) if m == 1 else [], ["C11", "C01", "C02", "C10"], STUB_CUT, F7TW + ["Bump::alloc", "<&Bump as Allocator>::deallocate"],
        {"chunk": "256-byte chunk, concrete finger", "initialiser": "allocates a u32 (symbolic value), keeps or releases it, then fails"}, "Bump<%d>" % m, cost=30)
for nm, m in (("f7_try_fill_with_m1", 1), ("f7_try_fill_with_m8", 8), ("f7_try_fill_iter_m1", 1), ("f7_try_fill_with_tiny_m1", 1), ("f7_try_fill_with_tiny_m8", 8), ("f7_try_fill_nested_m1", 1), ("f7_try_fill_nested_m16", 16)):
    _f7(nm, ["C11", "C02"] if m == 1 else [], ["C11", "C02"], STUB_CUT, ["Bump::alloc_slice_try_fill_with", "Bump::alloc_slice_try_fill_iter", "Bump::dealloc"],
        {"chunk": "256-byte chunk, finger in {0,16,100,256}", "len": "0..3 (3 for the iterator form)", "failing_index": "any or none", "element": "u32"}, "Bump<%d>" % m, cost=60)
F7I = {"values": (0, ["Bump::alloc", "Bump::alloc_with", "Bump::try_alloc", "Bump::try_alloc_with"]),
       "copy": (1, ["Bump::alloc_slice_copy", "Bump::try_alloc_slice_copy"]),
       "str": (2, ["Bump::alloc_str", "Bump::try_alloc_str"]),
       "clone": (3, ["Bump::alloc_slice_clone", "Bump::try_alloc_slice_clone"]),
       "fill_with": (4, ["Bump::alloc_slice_fill_with", "Bump::try_alloc_slice_fill_with"]),
       "fill_val": (5, ["Bump::alloc_slice_fill_copy/_clone/_default", "Bump::try_alloc_slice_fill_copy/_clone/_default"]),
       "fill_iter": (6, ["Bump::alloc_slice_fill_iter", "Bump::try_alloc_slice_fill_iter"])}
for nm, m in [("values", 1), ("values", 8), ("copy", 1), ("copy", 16), ("str", 1), ("clone", 1), ("fill_with", 1), ("fill_with", 4), ("fill_val", 1), ("fill_iter", 1), ("fill_iter", 2)]:
    _f7("f7_init_%s_m%d" % (nm, m), ["C02"] if m == 1 else [], ["C02"], STUB_CUT + (STUB_CNO_LOOP if nm in ("copy", "str") else []), F7I[nm][1],
        {"chunk": "256-byte chunk, finger in {16, 101*M, 256}", "len": "0..3", "element": "u32 (u8 for str)", "values": "symbolic"}, "Bump<%d>" % m, cost=30,
        exempt=[r"REACH: \[(?!%s\])" % nm])


# ---------------------------------------------------------------------------
# I1 isolation frame (sequential half of C20)
# ---------------------------------------------------------------------------
STUB_CELL = ["core::cell::Cell::set->cell_set_monitor"]
for nm, m in (("chunk", 1), ("chunk", 8), ("chunk", 16), ("fresh", 1), ("fresh", 16)):
    H("i1_frame_%s_m%d" % (nm, m), "__verif::i1", "I1", quick=["C20"] if (nm, m) in (("chunk", 1), ("fresh", 1), ("fresh", 16)) else [], thorough=["C20"],
      timeout=1500, cost=90, stubs=STUB_CUT + STUB_CELL, inst="Bump<%d> x 2" % m,
      funcs=["Bump::try_alloc_layout", "Bump::set_allocation_limit", "Bump::iter_allocated_chunks", "Bump::reset", "<Bump as Drop>::drop", "Cell::set (monitored)"],
      bounds={"arena_A": "chunk-less" if nm == "fresh" else "one chunk, symbolic geometry (<= 1 KiB)", "arena_B": "chunk-less or one 256-byte chunk (symbolic), any limit",
              "operation_on_A": "one of {try_alloc_layout(any layout), set_allocation_limit(any), iterate, reset, drop}", "threads": "none (sequential footprint only)"})


# ---------------------------------------------------------------------------
# V1/V2/V3 collections::Vec (C13)
# ---------------------------------------------------------------------------
STUB_LOOPS = ["core::ptr::copy_nonoverlapping->cno_loop", "core::ptr::copy->copy_loop"]
V1 = [("push", 0), ("push", 2), ("push", 4), ("pop", 0), ("pop", 3), ("insert", 2), ("insert", 4), ("remove", 3), ("remove", 4), ("swap_remove", 3),
      ("truncate", 3), ("clear", 3), ("resize", 2), ("extend_copy", 3), ("extend_slices", 2), ("append", 3), ("split_off", 3),
      ("drain", 3), ("drain", 4), ("drain_bounds", 4), ("retain", 3), ("dedup", 3), ("dedup_key", 4), ("dedup_by", 3), ("shrink", 2),
      ("into_iter", 3), ("into_iter", 0), ("into_slice", 3)]
V1_QUICK = {("push", 4), ("pop", 3), ("insert", 2), ("remove", 3), ("swap_remove", 3), ("truncate", 3), ("extend_copy", 3), ("split_off", 3), ("drain", 3),
            ("dedup", 3), ("dedup_by", 3), ("drain_bounds", 4)}
for (op, l) in V1:
    H("v1_%s_l%d" % (op, l), "__verif::v1", "V1", quick=["C13"] if (op, l) in V1_QUICK else [], thorough=["C13"] + (["C18"] if op == "reserve" else []),
      exempt=[r"end of harness \((?!%s\))" % (op if op in ("into_iter", "into_slice") else "other")],
      timeout=1500, cost=40, stubs=STUB_CUT + STUB_LOOPS, inst="Vec<u8>", funcs=["collections::Vec::%s" % op, "RawVec::reserve/double/realloc path", "Bump::{alloc,realloc,grow,shrink}"],
      bounds={"capacity_before": 4, "length_before": l, "elements": "symbolic u8", "arguments": "symbolic (in range)", "operation": op, "chunk": "256-byte chunk, concrete finger, a canary block below"})
for (op, l) in [("insert", 2), ("remove", 2), ("swap_remove", 0), ("split_off", 3), ("drain", 3), ("index", 3)]:
    H("v2_%s_l%d" % (op, l), "__verif::v1", "V2", quick=["C13"] if op in ("insert", "drain", "remove") else [], thorough=["C13"], timeout=900, cost=20,
      stubs=STUB_CUT + STUB_LOOPS, inst="Vec<u8>", funcs=["collections::Vec::%s" % op],
      allow=[r"index|out of bounds|assertion failed|range|slice|should be|removal|insertion|`at`"],
      bounds={"length": l, "index": "any OUT-OF-RANGE value", "expectation": "the call does not return"})
H("v3_neighbours", "__verif::v1", "V3", quick=["C13"], thorough=["C13", "C01"], timeout=900, cost=40, stubs=STUB_CUT + STUB_LOOPS, inst="2 x Vec<u8>",
  funcs=["collections::Vec::push (growth)", "Bump::realloc/grow"], bounds={"vectors": "two, capacity 2 -> 4, either grows", "elements": "symbolic"})


# ---------------------------------------------------------------------------
# E1 size-taking entry points, full-width counts (C19, C09)
# ---------------------------------------------------------------------------
PANIC_OK = [r"capacity overflow|out of memory|requested allocation size overflowed|encountered allocation error|placeholder message; Kani doesn"]
for t in ("u8", "u16", "a3", "u64", "a4096"):
    H("e1_try_slice_%s" % t, "__verif::e1", "E1", quick=["C19"] + (["C09"] if t in ("u64", "a3") else []) , thorough=["C19", "C09"], cost=15, stubs=STUB_NULL,
      inst="T=%s" % t, funcs=["Bump::try_alloc_slice_fill_with", "Bump::try_alloc_slice_fill_copy", "Bump::try_alloc_slice_fill_default", "Layout::array"],
      bounds={"len": "any usize with len*size_of::<T>() > 256 (what the arena holds)", "arena": "one empty 256-byte chunk, A-null"})
for t in ("u8", "u64", "a3"):
    H("e1_inf_slice_%s" % t, "__verif::e1", "E1", quick=["C19", "C11"] if t == "u64" else [], thorough=["C19", "C09", "C11"], cost=15, stubs=STUB_NULL, allow=PANIC_OK,
      inst="T=%s" % t, funcs=["Bump::alloc_slice_fill_with", "Bump::alloc_slice_try_fill_with"], bounds={"len": "any impossible length", "expectation": "does not return, initialiser not run"})
for nm, q in (("vec_with_capacity_u8", 0), ("vec_with_capacity_u64", 1), ("vec_reserve_u64", 1), ("vec_reserve_a3", 0), ("vec_reserve_exact_u16", 0),
              ("string_with_capacity", 1), ("string_reserve", 0)):
    H("e1_" + nm, "__verif::e1", "E1", quick=["C19"] if q else [], thorough=["C19"], cost=20, stubs=STUB_NULL, allow=PANIC_OK, inst=nm,
      funcs=["collections::Vec/String capacity entry points", "RawVec::allocate_in", "RawVec::reserve_internal", "alloc_guard"],
      bounds={"capacity": "any impossible value", "expectation": "does not return"})
for nm, q in (("vec_try_reserve_u64", 1), ("vec_try_reserve_a3", 0), ("vec_try_reserve_used_u8", 1), ("vec_try_reserve_used_u64", 0)):
    H("e1_" + nm, "__verif::e1", "E1", quick=["C19"] if q else [], thorough=["C19"], cost=80, timeout=2400, mem_gb=16, stubs=STUB_NULL, inst=nm, exempt=[r"harness end reached"] if False else [],
      funcs=["collections::Vec::try_reserve", "collections::Vec::try_reserve_exact", "RawVec::reserve_internal", "RawVec::amortized_new_size", "alloc_guard"],
      bounds={"additional": "any impossible value"})


for op in ("push", "insert", "extend_copy", "extend_slice", "extend_iter", "resize", "reserve"):
    H("v4_growth_" + op, "__verif::v1", "V4", quick=["C18"] if op in ("push", "extend_iter", "extend_copy") else [], thorough=["C18", "C13"], timeout=1500, cost=60,
      stubs=STUB_CUT + STUB_LOOPS, inst="Vec<u8>", funcs=["collections::Vec::" + op, "RawVec::reserve / amortized_new_size / double"],
      bounds={"vector": "capacity 4, length 4 (full)", "operation": op + " of one element", "claim": "capacity at least doubles"})
for nm in ("inf",):
    H("e1_vec_used_overflow_" + nm, "__verif::e1", "E1", quick=["C19"], thorough=["C19"], cost=30, stubs=STUB_NULL, inst="Vec<u32>", allow=PANIC_OK if nm == "inf" else [],
      funcs=["collections::Vec::{reserve,reserve_exact,try_reserve,try_reserve_exact}", "RawVec::{fallible,infallible}_reserve_internal"],
      bounds={"length": "1..3", "additional": "any value with len + additional > usize::MAX"})
for m in (1, 16):
    H("i1_decide_twin_m%d" % m, "__verif::i1", "I1", quick=["C20"] if m == 1 else [], thorough=["C20"], timeout=1500, cost=120, stubs=STUB_NULL, inst="Bump<%d> x 2" % m,
      funcs=["Bump::alloc_layout_slow (x3)"], unwind_is_claim=False,
      bounds={"arena_B": "current chunk 8128 usable, any limit, request 1..4096 bytes", "arena_A": "chunk-less, request 1..2048 bytes refused by the global allocator first",
              "claim": "B's request log is the same with and without A's history"})

for nm in ("to_end", "remove"):
    H("v5_splice_" + nm, "__verif::v1", "V5", quick=["C13"] if nm in ("to_end",) else [], thorough=["C13"], timeout=1500, cost=60, stubs=STUB_CUT + STUB_LOOPS, inst="Vec<u8>",
      funcs=["collections::Vec::splice", "<Splice as Drop>::drop", "Drain::fill", "Drain::move_tail"],
      bounds={"vector": "4 elements, capacity 12", "range and replacement length": "concrete per instance (%s)" % nm, "values": "symbolic"})
# (v6_from_iter_filter - inexact size hint, generic Extend path - ran past 17 min: not registered)
# (the two drain_filter harnesses take 8-9 min each: thorough tier only)
for nm, q in (("from_iter_exact", 1), ("vec_macro_list", 0), ("vec_macro_repeat", 1), ("drain_filter", 0)):
    H("v6_" + nm, "__verif::v1", "V6", quick=["C13"] if q else [], thorough=["C13"], timeout=1500, cost=40, stubs=STUB_CUT + STUB_LOOPS, inst="Vec<u8>",
      funcs=["collections::Vec::from_iter_in", "vec! (list and repeat forms)", "collections::Vec::drain_filter", "<DrainFilter as Drop>::drop"],
      bounds={"length": "3 (4 for the repeat form), concrete", "values": "symbolic u8", "predicate": "membership in a symbolic set", "scenario": nm})
# ---------------------------------------------------------------------------
# S1/S2 collections::String (C14)
# ---------------------------------------------------------------------------
LOSSY_MOD = "collections::str::lossy::__verif_lossy"
H("s2_char_width", LOSSY_MOD, "S2", quick=["C14"], cost=3, inst="-", funcs=["collections::str::utf8_char_width", "UTF8_CHAR_WIDTH table"], bounds={"byte": "all 256 values"})
for n in (2, 3, 4):
    H("s2_lossy_n%d" % n, LOSSY_MOD, "S2", quick=["C14"] if n in (2, 3) else [], thorough=["C14"], timeout=2400, cost=60, mem_gb=16, inst="-",
      funcs=["Utf8LossyChunksIter::next"], bounds={"input": "every byte string of 1..%d bytes" % n, "oracle": "RFC 3629 maximal-subpart spec (validated natively against <[u8]>::utf8_chunks)"})
S1 = ["push_str", "pop", "insert", "insert_str", "remove", "truncate", "split_off", "drain", "retain"]
S1_QUICK = {("push_str", 3), ("pop", 4), ("insert", 3), ("remove", 4), ("truncate", 3), ("drain", 4), ("split_off", 2)}
for op in S1:
    for n in (2, 3, 4):
        H("s1_%s_n%d" % (op, n), "__verif::s1", "S1", quick=["C14"] if (op, n) in S1_QUICK else [], thorough=["C14"],
          timeout=2400, cost=60, mem_gb=16, stubs=STUB_CUT + STUB_LOOPS, inst="String", funcs=["collections::String::" + op],
          bounds={"text": "any valid UTF-8 of exactly %d bytes (contents symbolic)" % n, "index/range": "any LEGAL value (boundary, in range)", "char": "any char", "capacity": "12 (no reallocation)"})
for op in ["insert", "insert_str", "remove", "truncate", "split_off", "drain"]:
    for n in (2, 4):
        H("s1p_%s_n%d" % (op, n), "__verif::s1", "S1", quick=["C14"] if (op, n) in (("insert", 2), ("split_off", 4), ("remove", 2)) else [], thorough=["C14"],
          timeout=2400, cost=40, mem_gb=16, stubs=STUB_CUT + STUB_LOOPS, inst="String", funcs=["collections::String::" + op],
          allow=[r"is_char_boundary|assertion failed|out of bounds|index|range|slice|byte index|cannot remove|placeholder message"],
          bounds={"text": "any valid UTF-8 of exactly %d bytes" % n, "index/range": "any ILLEGAL value (non-boundary or out of range)", "expectation": "the call does not return"})
for nm, q in (("n2_w2", 1), ("n3_w3", 1), ("n4_w4", 1), ("n0_w4", 0), ("n2_w2_s3", 0)):
    H("s1_pushw_" + nm, "__verif::s1", "S1", quick=["C14", "C18"] if q else [], thorough=["C14", "C18"], timeout=1500, cost=40, mem_gb=16, stubs=STUB_CUT + STUB_LOOPS, inst="String",
      funcs=["collections::String::push", "collections::Vec::extend_from_slice", "<Vec as Extend>::extend", "collections::String::with_capacity_in"],
      bounds={"text": "any valid UTF-8 of exactly N bytes (instance name: nN)", "char": "width W concrete per instance (wW): any ASCII for W=1, U+00E9 / U+20AC / U+1D11E otherwise", "capacity": "exactly N + W (+3 for _s3): the push must neither move nor regrow the buffer"})
for nm, q in (("incl_end", 1), ("excl_end", 0), ("all", 0)):
    H("s1_replw_" + nm, "__verif::s1", "S1", quick=["C14"] if q else [], thorough=["C14"], timeout=1500, cost=60, mem_gb=16, stubs=STUB_CUT + STUB_LOOPS, inst="String",
      funcs=["collections::String::replace_range", "collections::Vec::splice", "<Splice as Drop>::drop", "Drain::fill", "Drain::move_tail"],
      bounds={"text": "any valid UTF-8 of 3-4 bytes for which the range is legal", "range": "concrete per instance (%s), exclusive or inclusive end, always reaching the end of the text (ranges with a tail behind them: > 10 min, not registered)" % nm, "replacement": "1-2 ASCII bytes, contents symbolic", "capacity": "12 (no reallocation)"})
for nm, q in (("incl_oob", 1), ("excl_start", 0)):
    H("s1p_replw_" + nm, "__verif::s1", "S1", quick=["C14"] if q else [], thorough=["C14"], timeout=1500, cost=60, mem_gb=16, stubs=STUB_CUT + STUB_LOOPS, inst="String",
      funcs=["collections::String::replace_range"],
      allow=[r"is_char_boundary|assertion failed|out of bounds|index|range|slice|byte index|placeholder message"],
      bounds={"text": "any valid UTF-8 of 3-4 bytes for which the concrete range (%s) is ILLEGAL (an end inside a character, or past the end)" % nm, "expectation": "the call does not return"})
H("s2_from_utf8", "__verif::s1", "S2", quick=[], thorough=["C14"], timeout=2400, cost=60, mem_gb=16, stubs=STUB_CUT + STUB_LOOPS, inst="String",
  funcs=["collections::String::from_utf8", "FromUtf8Error"], bounds={"input": "every byte string of 0..2 bytes (3 bytes: solver ran out of 16 GB in core::str validation)"})


# ---------------------------------------------------------------------------
# DL drop ledger (C15) and BX boxed::Box (C17)
# ---------------------------------------------------------------------------
DL = ["pop", "remove", "swap_remove", "truncate", "clear", "drain", "forget_drain", "into_iter", "retain", "dedup", "split_off", "into_boxed", "into_slice", "drop_only", "drain_nth", "drain_filter"]
for op in DL:
    H("dl_" + op, "__verif::dl", "DL", quick=["C15"] if op in ("pop", "remove", "truncate", "drain", "into_iter", "retain", "into_boxed", "into_slice", "drop_only", "drain_nth", "dedup") else [],
      thorough=["C15"] + (["C17"] if op == "into_boxed" else []), timeout=1500, cost=40, stubs=STUB_CUT + STUB_LOOPS, inst="Vec<D> (D = id + counting destructor)",
      funcs=["collections::Vec::" + op, "<Vec as Drop>::drop", "Drain/IntoIter Drop", "Bump::reset"],
      bounds={"elements": 3, "operation": op, "arguments": "symbolic", "then": "container dropped, arena reset"})
for nm, q in (("basic", 1), ("partial_ord", 1), ("downcast", 1), ("slices", 1), ("from_vec_spare", 1), ("slices_zst", 1)):
    H("bx_%s_h" % nm, "__verif::dl", "BX", quick=["C17"] + (["C15"] if nm in ("basic", "slices") else []) + (["C13"] if nm == "from_vec_spare" else []), thorough=["C17", "C15", "C13"], timeout=1500, cost=40,
      stubs=STUB_CUT + STUB_LOOPS, inst="Box<u32|f32|D|[D;3]|dyn Any>",
      funcs=["boxed::Box::{new_in,into_inner,into_raw,from_raw,leak,pin_in,downcast}", "<Box as Drop>::drop", "PartialEq/PartialOrd/Ord for Box", "From/TryFrom between Box<[T;N]> and Box<[T]>", "Vec::into_boxed_slice"],
      bounds={"values": "symbolic u32 / f32 (incl. NaN) / Drop-ledger values", "scenario": nm})


# ---------------------------------------------------------------------------
# T1 infallible twins (C09); raw_vec growth lemma (C18/C19)
# ---------------------------------------------------------------------------
for nm, m in (("layout", 1), ("layout", 8), ("value", 1), ("value", 16), ("slice", 1), ("slice", 4)):
    H("t1_twin_%s_m%d" % (nm, m), "__verif::t1", "T1", quick=["C09"] if (nm, m) in (("layout", 8), ("slice", 1)) else [], thorough=["C09"], timeout=2400, cost=150, mem_gb=16,
      stubs=STUB_NULL, inst="Bump<%d> x 2" % m, allow=[r"out of memory|requested allocation size overflowed"],
      funcs=["Bump::alloc_layout / try_alloc_layout", "Bump::alloc / try_alloc", "Bump::alloc_slice_fill_copy / try_alloc_slice_fill_copy", "oom()"],
      bounds={"arenas": "two chunks of <= 1 KiB with the same symbolic geometry, finger and limit", "request": "any layout / [u64;4] / u16 slice of any length", "allocator": "A-null"})
H("f5_amortized_new_size", "collections::raw_vec::__verif_rawvec", "F5", quick=["C18", "C19"], cost=5, inst="RawVec<u8>",
  funcs=["RawVec::amortized_new_size"], bounds={"cap": "0..isize::MAX", "used": "<= cap", "extra": "any usize"})


H("i1_vec_append_cross_h", "__verif::i1", "I1", quick=["C20"], thorough=["C20", "C13"], timeout=1500, cost=60, stubs=STUB_CUT + STUB_LOOPS, inst="2 arenas, Vec<u8>",
  funcs=["collections::Vec::append", "collections::Vec::push"], bounds={"scenario": "unallocated vector of arena A appends a 2-element vector of arena B, then grows"})


def by_name(n):
    for h in ALL:
        if h.name == n:
            return h
    return None


def select(prop, tier):
    out = []
    for h in ALL:
        s = h.quick if tier == "quick" else h.thorough
        if prop in s:
            out.append(h)
    return out
