"""Harness registry: which Kani harness serves which property in which tier,
with its bounds (for the evidence), budget and expected-failure allow-list.

A harness is listed as
    H(name, mod, family, quick=[props], thorough=[props], ...)
`thorough` is implicitly a superset of `quick`.
"""

ALL = []


class H:
    def __init__(self, name, mod, family, quick=(), thorough=(), timeout=600, mem_gb=10,
                 allow=(), canary=None, stubs=(), bounds=None, funcs=(), inst="",
                 unwind_is_claim=False, extra_args=(), cost=30, note=""):
        self.name = name
        self.mod = mod
        self.family = family
        self.quick = set(quick)
        self.thorough = set(thorough) | set(quick)
        self.timeout = timeout
        self.mem_gb = mem_gb
        self.allow = list(allow)          # regexes: failed-check descriptions that are EXPECTED
        self.canary = canary              # regex: this harness MUST fail with such a description
        self.stubs = list(stubs)          # substrings that must appear in Kani's "- Stub:" lines
        self.bounds = bounds or {}
        self.funcs = list(funcs)
        self.inst = inst
        self.unwind_is_claim = unwind_is_claim
        self.extra_args = list(extra_args)
        self.cost = cost                  # rough seconds, for scheduling (longest first)
        self.note = note
        ALL.append(self)

    @property
    def path(self):
        return self.mod + "::" + self.name


STUB_NULL = ["core_alloc::alloc::alloc->alloc_null", "core_alloc::alloc::dealloc->dealloc_count"]
STUB_CUT = ["core_alloc::alloc::alloc->alloc_cut", "core_alloc::alloc::dealloc->dealloc_count"]

MS = [1, 2, 4, 8, 16]

# ---------------------------------------------------------------------------
# F1 step-alloc
# ---------------------------------------------------------------------------
F1_FUNCS = ["Bump::try_alloc_layout", "Bump::try_alloc_layout_fast", "Bump::alloc_layout_slow",
            "Bump::new_chunk_memory_details", "Bump::chunk_fits_under_limit",
            "Bump::allocation_limit_remaining", "Bump::chunk_capacity", "round_up_to"]
for m in MS:
    H("f1_fast_m%d_1k" % m, "__verif::f1", "F1",
      quick=["C01", "C04", "C10", "C18"] if m in (1, 8, 16) else [],
      thorough=["C01", "C04", "C10", "C18"],
      timeout=600, cost=30, stubs=STUB_CUT, inst="Bump<%d>" % m, funcs=F1_FUNCS,
      bounds={"chunk_usable_bytes": "16..1024 (symbolic)", "chunk_base_residue": "any multiple of 16 below 1024",
              "request_size": "any usize accepted by Layout", "request_align": "1..4096", "allocator": "A-cut (slow path excluded)",
              "limit": "None", "unwind": 3})
    H("f1_alloc_m%d_1k" % m, "__verif::f1", "F1",
      quick=["C09", "C07"] if m in (1, 16) else [],
      thorough=["C01", "C04", "C07", "C09", "C18"],
      timeout=900, cost=60, stubs=STUB_NULL, inst="Bump<%d>" % m, funcs=F1_FUNCS,
      bounds={"chunk_usable_bytes": "16..1024 (symbolic)", "request_size": "any usize accepted by Layout",
              "request_align": "1..4096", "allocator": "A-null (refuses everything, logged)",
              "limit": "any Option<usize>", "unwind": 6})
    H("f1_fast_m%d_16k" % m, "__verif::f1", "F1",
      thorough=["C01", "C04", "C10", "C18"],
      timeout=1200, cost=60, stubs=STUB_CUT, inst="Bump<%d>" % m, funcs=F1_FUNCS,
      bounds={"chunk_usable_bytes": "16..16384 (symbolic)", "chunk_base_residue": "every multiple of 16 mod 4096",
              "request_size": "any usize accepted by Layout", "request_align": "1..4096", "allocator": "A-cut",
              "limit": "None", "unwind": 3})


def by_name(n):
    for h in ALL:
        if h.name == n:
            return h
    return None


def select(prop, tier):
    out = []
    for h in ALL:
        s = h.quick if tier == "quick" else h.thorough
        if prop in s:
            out.append(h)
    return out
