#!/usr/bin/env python3
"""Regenerate /verif/MANIFEST.json from the registry (run after editing registry/properties)."""
import json
import os
import sys

HERE = os.path.dirname(os.path.abspath(__file__))
sys.path.insert(0, HERE)
import registry  # noqa: E402
import properties  # noqa: E402

VERIF = os.path.dirname(HERE)

NA = {
    "C05": "decided by rustc's type/borrow/auto-trait checkers on programs that must FAIL to compile; there is no execution to make symbolic and no SMT query to pose (Kani only sees programs that compiled). Compile-fail probing is a different technique and is not substituted.",
    "C16": "the property lives on unwinding paths (drop guards running while a panic propagates, then catch_unwind). Kani/CBMC give panics abort semantics: cleanup blocks are not generated and catch_unwind is unsupported, so no bound reaches it; an own MIR interpreter with unwind edges is out of reach here.",
}

LEVEL_NOTE = ("bounded symbolic execution (Kani 0.68 -> CBMC 6.11 -> cadical) of the real crate copied verbatim from /repo; "
              "trusted: rustc/Kani/CBMC/cadical, CBMC pointer model, dev-profile semantics, the global-allocator models and copy-loop "
              "substitutions listed in the evidence, the representation invariant assumed for hand-made states (established by base-case harnesses), "
              "pen-and-paper induction from base+step to histories. Bounds per harness are in the evidence file; nothing is claimed outside them.")


def main():
    checks = []
    na = []
    props = ["C%02d" % i for i in range(1, 21)]
    for p in props:
        q = registry.select(p, "quick")
        t = registry.select(p, "thorough")
        if p in NA:
            na.append({"property_id": p, "reason": NA[p]})
            continue
        if not q or p not in properties.PROPS:
            na.append({"property_id": p, "reason": "no check registered yet for this property (planned in DESIGN.md section 6; not claimed until its harness set exists and passes)"})
            continue
        P = properties.PROPS[p]
        fams = sorted({h.family for h in t})
        checks.append({
            "property_id": p,
            "quick_cmd": "./check %s --tier quick" % p,
            "thorough_cmd": "./check %s --tier thorough" % p,
            "evidence_file": "evidence/%s.json" % p,
            "replay_cmd_template": "./check %s --replay {path}" % p,
            "engine": "kani-cbmc",
            "level_claimed": {
                "category": "model_checking",
                "text": P["explanation"] + " Bounded: holds for all values within the per-harness bounds recorded in the evidence; outside: " + "; ".join(P["outside"]) + ".",
                "design_ref": "DESIGN.md section A (build status, families A.2, detection matrix A.5) and section 6, " + p,
            },
            "level_note": LEVEL_NOTE,
            "technique": "bounded model checking of the compiled crate: Kani proof harnesses (families %s) with symbolic arena state, requests and allocator behaviour, decided by CBMC/cadical; counterexamples replayed natively" % ", ".join(fams),
        })
    man = {
        "version": 1,
        "setup_cmd": "./setup.sh",
        "hooks": {
            "guard": "kani (cfg set by cargo-kani; harness modules are appended to a scratch COPY of /repo/src only, /repo itself is never modified)",
            "enable": "./check copies /repo's working tree to ${VERIF_SCRATCH:-/var/tmp}/bumpalo-verif.<pid>, appends `#[cfg(kani)] mod __verif {...}` include lines to the copy and runs cargo kani there",
            "baseline_off_cmd": "cd /repo && cargo test --workspace --no-fail-fast --offline",
            "source_commits": [],
            "add_only": True,
        },
        "engines": [
            {"name": "kani-cbmc", "path": "runner/", "serves_properties": [c["property_id"] for c in checks],
             "kind_free_text": "Kani 0.68 proof harnesses (harness/*.rs) over the real crate, CBMC 6.11 + cadical back end; python driver runner/main.py"},
        ],
        "checks": checks,
        "not_applicable": na,
        "notes": "Exit codes: 0 held / 1 VIOLATION (replayed) / 2 inconclusive (build failure, timeout, memory cap, vacuous harness, non-reproducing counterexample). See DESIGN.md.",
    }
    with open(os.path.join(VERIF, "MANIFEST.json"), "w") as f:
        json.dump(man, f, indent=1)
    print("claimed:", [c["property_id"] for c in checks])
    print("n/a:", [x["property_id"] for x in na])


if __name__ == "__main__":
    main()
