"""Scratch crate: a verbatim copy of /repo's working tree sources plus appended
`#[cfg(kani)]` include lines.  Nothing in /repo is touched."""
import os
import shutil
import subprocess
import atexit
import signal
import sys

REPO = os.environ.get("VERIF_REPO", "/repo")
VERIF = os.path.dirname(os.path.dirname(os.path.abspath(__file__)))
HARNESS_DIR = os.path.join(VERIF, "harness")

CARGO_TOML = """\
[package]
name = "bumpalo"
version = "3.17.0"
edition = "2021"

[lib]
path = "src/lib.rs"

[dependencies]
allocator-api2 = { version = "0.2.8", default-features = false, optional = true }

[features]
default = []
collections = []
boxed = []
allocator_api = []
std = []

[lints.rust]
dangerous_implicit_autorefs = "allow"
mismatched_lifetime_syntaxes = "allow"
static_mut_refs = "allow"
unexpected_cfgs = "allow"
unused = "allow"
dead_code = "allow"

[workspace]
"""

# file in the copied tree -> list of (module name, harness file) appended to it
APPEND = {
    "src/lib.rs": [("__verif", "lib_root.rs")],
    "src/collections/raw_vec.rs": [("__verif_rawvec", "in_raw_vec.rs")],
    "src/collections/str/lossy.rs": [("__verif_lossy", "in_lossy.rs")],
}

_live = []


def _cleanup():
    for d in list(_live):
        shutil.rmtree(d, ignore_errors=True)
        _live.remove(d)


atexit.register(_cleanup)


def _sig(signum, frame):
    _cleanup()
    sys.exit(130)


for s in (signal.SIGTERM, signal.SIGINT):
    try:
        signal.signal(s, _sig)
    except Exception:
        pass


def scratch_root():
    base = os.environ.get("VERIF_SCRATCH", "/var/tmp")
    return os.path.join(base, "bumpalo-verif.%d" % os.getpid())


def make(tag="main", keep=False):
    """Create a fresh scratch crate from REPO's current working tree."""
    root = os.path.join(scratch_root(), tag)
    if os.path.exists(root):
        shutil.rmtree(root)
    os.makedirs(root)
    if not keep and scratch_root() not in _live:
        _live.append(scratch_root())
    shutil.copytree(os.path.join(REPO, "src"), os.path.join(root, "src"))
    shutil.copy(os.path.join(REPO, "README.md"), os.path.join(root, "README.md"))
    lock = os.path.join(REPO, "Cargo.lock")
    if os.path.exists(lock):
        shutil.copy(lock, os.path.join(root, "Cargo.lock"))
    with open(os.path.join(root, "Cargo.toml"), "w") as f:
        f.write(CARGO_TOML)
    os.makedirs(os.path.join(root, ".cargo"))
    with open(os.path.join(root, ".cargo", "config.toml"), "w") as f:
        f.write("[net]\noffline = true\n")
    # harness sources are copied into the scratch crate (a run is then immune to edits of
    # /verif/harness while it is in progress, and a snapshot of /verif uses its own harnesses)
    hdst = os.path.join(root, "verif_harness")
    shutil.copytree(HARNESS_DIR, hdst)
    for rel, mods in APPEND.items():
        p = os.path.join(root, rel)
        if not os.path.exists(p):
            continue
        with open(p, "a") as f:
            f.write("\n")
            for mod, hf in mods:
                hp = os.path.join(hdst, hf)
                if os.path.exists(hp):
                    f.write('#[cfg(kani)]\n#[allow(warnings)]\nmod %s { include!("%s"); }\n' % (mod, hp))
    return root


def source_digest():
    """sha256 over the copied sources (goes into the evidence)."""
    import hashlib
    h = hashlib.sha256()
    for dp, dn, fn in sorted(os.walk(os.path.join(REPO, "src"))):
        dn.sort()
        for n in sorted(fn):
            p = os.path.join(dp, n)
            h.update(p.encode())
            with open(p, "rb") as f:
                h.update(f.read())
    return h.hexdigest()


def repo_head():
    try:
        head = subprocess.check_output(["git", "-C", REPO, "rev-parse", "HEAD"], text=True).strip()
        dirty = subprocess.check_output(["git", "-C", REPO, "status", "--porcelain", "--", "src"], text=True).strip()
        return head + ("+dirty" if dirty else "")
    except Exception:
        return "unknown"
